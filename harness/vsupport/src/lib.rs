pub fn hello() {}
