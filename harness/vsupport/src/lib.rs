//! Support code shared by the generated conformance drivers.  Nothing in here knows what the
//! right answer is: it only runs calls, catches panics as data and writes what it saw as NDJSON.
use std::cell::RefCell;
use std::collections::HashMap;
use std::fmt::Write as _;
use std::io::Write as _;
use std::panic::{catch_unwind, AssertUnwindSafe};

// ------------------------------------------------------------------ output
pub struct Out {
    w: std::io::BufWriter<std::fs::File>,
    pub events: u64,
}
impl Out {
    pub fn create(path: &str) -> Out {
        Out { w: std::io::BufWriter::with_capacity(1 << 20, std::fs::File::create(path).expect("create trace")), events: 0 }
    }
    pub fn line(&mut self, s: &str) {
        self.w.write_all(s.as_bytes()).unwrap();
        self.w.write_all(b"\n").unwrap();
        self.events += 1;
    }
    pub fn finish(mut self) {
        self.w.flush().unwrap();
    }
}

/// a string as a JSON array of code points
pub fn jcps(s: &str) -> String {
    let mut o = String::with_capacity(s.len() * 4 + 2);
    o.push('[');
    let mut first = true;
    for c in s.chars() {
        if !first { o.push(','); }
        first = false;
        write!(o, "{}", c as u32).unwrap();
    }
    o.push(']');
    o
}
pub fn jopt_cps(s: Option<&str>) -> String {
    match s { None => "[]".to_string(), Some(x) => format!("[{}]", jcps(x)) }
}
pub fn jlist<T: AsRef<str>>(xs: &[T]) -> String {
    let mut o = String::from("[");
    for (i, x) in xs.iter().enumerate() {
        if i > 0 { o.push(','); }
        o.push_str(x.as_ref());
    }
    o.push(']');
    o
}
pub fn jstrs<T: AsRef<str>>(xs: &[T]) -> String {
    let v: Vec<String> = xs.iter().map(|x| jcps(x.as_ref())).collect();
    jlist(&v)
}
pub fn jbool(b: bool) -> &'static str { if b { "true" } else { "false" } }

// ------------------------------------------------------------------ inputs
/// inputs file: one line per (definition id, string): "<id>\t<cp>,<cp>,..." (empty string = no code points)
pub fn load_inputs(path: &str) -> HashMap<u32, Vec<String>> {
    let mut m: HashMap<u32, Vec<String>> = HashMap::new();
    let txt = std::fs::read_to_string(path).expect("inputs file");
    for l in txt.lines() {
        let mut it = l.splitn(2, '\t');
        let id: u32 = it.next().unwrap().parse().unwrap();
        let rest = it.next().unwrap_or("");
        let s: String = if rest.is_empty() { String::new() } else {
            rest.split(',').map(|x| char::from_u32(x.parse::<u32>().unwrap()).unwrap()).collect()
        };
        m.entry(id).or_default().push(s);
    }
    m
}

// ------------------------------------------------------------------ panics are data
pub fn quiet_panics() {
    std::panic::set_hook(Box::new(|_| {}));
}
pub fn catch<T>(f: impl FnOnce() -> T) -> Result<T, String> {
    match catch_unwind(AssertUnwindSafe(f)) {
        Ok(v) => Ok(v),
        Err(e) => Err(if let Some(s) = e.downcast_ref::<&str>() { s.to_string() }
                      else if let Some(s) = e.downcast_ref::<String>() { s.clone() } else { "panic".to_string() }),
    }
}

// ------------------------------------------------------------------ rng (xorshift64*)
pub struct Rng(pub u64);
impl Rng {
    pub fn new(seed: u64) -> Rng { Rng(seed.wrapping_mul(0x9E3779B97F4A7C15) | 1) }
    pub fn next(&mut self) -> u64 {
        let mut x = self.0;
        x ^= x >> 12; x ^= x << 25; x ^= x >> 27;
        self.0 = x;
        x.wrapping_mul(0x2545F4914F6CDD1D)
    }
    pub fn below(&mut self, n: u64) -> u64 { if n == 0 { 0 } else { self.next() % n } }
}

// ------------------------------------------------------------------ things generated enums refer to
pub fn dw_u8() -> u8 { 7 }
pub fn dw_i32() -> i32 { -3 }
pub fn dw_bool() -> bool { true }
pub fn dw_string() -> String { String::from("dw") }
pub fn dw_opt() -> Option<u8> { Some(9) }

#[derive(Debug, Clone, PartialEq)]
pub struct Arr<const N: usize>(pub [u8; N]);
impl<const N: usize> Default for Arr<N> { fn default() -> Self { Arr([0; N]) } }
impl<const N: usize> Arr<N> { pub fn filled(x: u8) -> Self { Arr([x; N]) } }

/// user-defined parse error: records every invocation of the constructor function
#[derive(Debug, Clone, PartialEq)]
pub struct UserErr(pub String);
thread_local! { static USER_ERR_LOG: RefCell<Vec<String>> = RefCell::new(Vec::new()); }
pub fn user_err(s: &str) -> UserErr {
    USER_ERR_LOG.with(|l| l.borrow_mut().push(s.to_string()));
    UserErr(s.to_string())
}
pub fn user_err_calls() -> usize { USER_ERR_LOG.with(|l| l.borrow().len()) }
pub fn user_err_take() -> Vec<String> { USER_ERR_LOG.with(|l| std::mem::take(&mut *l.borrow_mut())) }

// ------------------------------------------------------------------ probes
pub trait Probe {
    fn decl_index(&self) -> usize;
    fn payload_ok(&self) -> bool;
    /// the inner value of a default (catch-all) variant rendered with `{}`, if this is one
    fn captured(&self) -> Option<String>;
}
pub trait ErrProbe {
    /// ("nf", None) for strum::ParseError::VariantNotFound, ("ue", Some(payload)) for UserErr
    fn enc(&self) -> (&'static str, Option<String>);
}
impl ErrProbe for strum::ParseError {
    fn enc(&self) -> (&'static str, Option<String>) { match self { strum::ParseError::VariantNotFound => ("nf", None) } }
}
impl ErrProbe for UserErr {
    fn enc(&self) -> (&'static str, Option<String>) { ("ue", Some(self.0.clone())) }
}

/// one parse result as a JSON record {k,i,pd,s,uc,ua}
pub fn enc_result<E: Probe, X: ErrProbe>(r: &Result<Result<E, X>, String>, calls: &[String]) -> String {
    let ua: Vec<String> = calls.iter().map(|c| jcps(c)).collect();
    match r {
        Err(p) => format!("{{\"k\":\"panic\",\"i\":0,\"pd\":false,\"s\":{},\"uc\":{},\"ua\":{}}}", jcps(p), calls.len(), jlist(&ua)),
        Ok(Ok(v)) => match v.captured() {
            Some(c) => format!("{{\"k\":\"c\",\"i\":{},\"pd\":true,\"s\":{},\"uc\":{},\"ua\":{}}}", v.decl_index(), jcps(&c), calls.len(), jlist(&ua)),
            None => format!("{{\"k\":\"v\",\"i\":{},\"pd\":{},\"s\":[],\"uc\":{},\"ua\":{}}}", v.decl_index(), jbool(v.payload_ok()), calls.len(), jlist(&ua)),
        },
        Ok(Err(x)) => {
            let (k, p) = x.enc();
            format!("{{\"k\":\"{}\",\"i\":0,\"pd\":false,\"s\":{},\"uc\":{},\"ua\":{}}}", k, jcps(p.as_deref().unwrap_or("")), calls.len(), jlist(&ua))
        }
    }
}

/// Run FromStr and TryFrom<&str> on every input; one batched event.
pub fn parse_batch<E, X>(o: &mut Out, def: u32, ins: &[String])
where
    E: Probe + core::str::FromStr<Err = X> + for<'x> core::convert::TryFrom<&'x str, Error = X>,
    X: ErrProbe,
{
    let mut res: Vec<String> = Vec::with_capacity(ins.len());
    let mut tf: Vec<String> = Vec::new();
    let mut tf_same = true;
    for (n, s) in ins.iter().enumerate() {
        user_err_take();
        let r = catch(|| <E as core::str::FromStr>::from_str(s));
        let c1 = user_err_take();
        let t = catch(|| <E as core::convert::TryFrom<&str>>::try_from(s.as_str()));
        let c2 = user_err_take();
        let a = enc_result(&r, &c1);
        let b = enc_result(&t, &c2);
        if a != b {
            tf_same = false;
            tf.push(format!("{{\"n\":{},\"r\":{}}}", n + 1, b));
        }
        res.push(a);
    }
    let ins_j: Vec<String> = ins.iter().map(|s| jcps(s)).collect();
    o.line(&format!("{{\"op\":\"parse\",\"def\":{},\"ins\":{},\"res\":{},\"tf_same\":{},\"tf\":{}}}",
        def, jlist(&ins_j), jlist(&res), jbool(tf_same), jlist(&tf)));
}

/// parse one string with FromStr; JSON record of the result
pub fn parse_one<E, X>(s: &str) -> String
where E: Probe + core::str::FromStr<Err = X>, X: ErrProbe {
    user_err_take();
    let r = catch(|| <E as core::str::FromStr>::from_str(s));
    let c = user_err_take();
    enc_result(&r, &c)
}

// ------------------------------------------------------------------ format-spec grid
/// (fill, align, width, precision): align 'n' = none given
pub type Spec = (char, char, usize, Option<usize>);
macro_rules! f2 {
    ($a:literal, $b:literal, $x:expr, $w:expr, $p:expr) => {
        match $p { None => format!($a, $x, $w), Some(p) => format!($b, $x, $w, p) }
    };
}
pub fn fmt_spec<T: core::fmt::Display + ?Sized>(x: &T, s: Spec) -> String {
    let (fill, align, w, p) = s;
    match (fill, align) {
        (' ', 'n') => f2!("{:1$}", "{:1$.2$}", x, w, p),
        (' ', '<') => f2!("{:<1$}", "{:<1$.2$}", x, w, p),
        (' ', '^') => f2!("{:^1$}", "{:^1$.2$}", x, w, p),
        (' ', '>') => f2!("{:>1$}", "{:>1$.2$}", x, w, p),
        ('*', '<') => f2!("{:*<1$}", "{:*<1$.2$}", x, w, p),
        ('*', '^') => f2!("{:*^1$}", "{:*^1$.2$}", x, w, p),
        ('*', '>') => f2!("{:*>1$}", "{:*>1$.2$}", x, w, p),
        ('é', '<') => f2!("{:é<1$}", "{:é<1$.2$}", x, w, p),
        ('é', '^') => f2!("{:é^1$}", "{:é^1$.2$}", x, w, p),
        ('é', '>') => f2!("{:é>1$}", "{:é>1$.2$}", x, w, p),
        _ => panic!("spec not in grid"),
    }
}
pub fn grid() -> Vec<Spec> {
    let dense = std::env::var("VERIF_GRID").map(|v| v == "thorough").unwrap_or(false);
    let widths: Vec<usize> = if dense { (0..=16).collect() } else { vec![0, 1, 2, 5, 9, 16] };
    let precs: Vec<Option<usize>> = if dense { std::iter::once(None).chain((0..=8).map(Some)).collect() } else { vec![None, Some(0), Some(1), Some(3), Some(8)] };
    let mut g = Vec::new();
    for (f, a) in [(' ', 'n'), (' ', '<'), (' ', '^'), (' ', '>'), ('*', '<'), ('*', '^'), ('*', '>'), ('é', '<'), ('é', '^'), ('é', '>')] {
        for w in &widths { for p in &precs { g.push((f, a, *w, *p)); } }
    }
    g
}
pub fn jspecs(g: &[Spec]) -> String {
    let v: Vec<String> = g.iter().map(|(f, a, w, p)| format!("{{\"fill\":{},\"align\":\"{}\",\"width\":{},\"prec\":{}}}", *f as u32, a, w, p.map(|x| x as i64).unwrap_or(-1))).collect();
    jlist(&v)
}
/// the value and a reference string (its plain `{}` rendering) under every spec of the grid
pub fn fmt_event<T: core::fmt::Display>(o: &mut Out, def: u32, i: usize, x: &T) {
    let g = grid();
    let name = format!("{}", x);
    let outs: Vec<String> = g.iter().map(|s| jcps(&fmt_spec(x, *s))).collect();
    let stds: Vec<String> = g.iter().map(|s| jcps(&fmt_spec(name.as_str(), *s))).collect();
    o.line(&format!("{{\"op\":\"fmt\",\"def\":{},\"i\":{},\"specs\":{},\"outs\":{},\"std\":{}}}", def, i, jspecs(&g), jlist(&outs), jlist(&stds)));
}
/// extra flag combinations (sign, zero padding, alternate) - only compared outer vs inner
macro_rules! extra_specs {
    ($x:expr) => {
        vec![format!("{:+}", $x), format!("{:08}", $x), format!("{:+08}", $x), format!("{:#}", $x), format!("{:>+6}", $x),
             format!("{:#^9}", $x), format!("{:<08}", $x), format!("{:0<+7.1}", $x)]
    };
}
/// the outer value and its inner value under every spec of the grid plus the extra flag combinations
pub fn fwd_event<T: core::fmt::Display, U: core::fmt::Display + ?Sized>(o: &mut Out, def: u32, i: usize, x: &T, inner: &U) {
    let g = grid();
    let mut a: Vec<String> = g.iter().map(|s| jcps(&fmt_spec(x, *s))).collect();
    let mut b: Vec<String> = g.iter().map(|s| jcps(&fmt_spec(inner, *s))).collect();
    a.extend(extra_specs!(x).iter().map(|s| jcps(s)));
    b.extend(extra_specs!(inner).iter().map(|s| jcps(s)));
    o.line(&format!("{{\"op\":\"fwd\",\"def\":{},\"i\":{},\"what\":\"display\",\"outer\":{},\"inner\":{}}}", def, i, jlist(&a), jlist(&b)));
}
pub fn fwd_str_event(o: &mut Out, def: u32, i: usize, what: &str, outer: &str, inner: &str) {
    o.line(&format!("{{\"op\":\"fwd\",\"def\":{},\"i\":{},\"what\":\"{}\",\"outer\":[{}],\"inner\":[{}]}}", def, i, what, jcps(outer), jcps(inner)));
}

/// from_str(s).to_string() for every input that ends up in a default (catch-all) variant
pub fn capture_batch<E, X>(o: &mut Out, def: u32, ins: &[String])
where E: Probe + core::fmt::Display + core::str::FromStr<Err = X>, X: ErrProbe {
    let mut ts: Vec<String> = Vec::with_capacity(ins.len());
    for s in ins {
        let r = catch(|| match <E as core::str::FromStr>::from_str(s) {
            Ok(v) if v.captured().is_some() => Some(v.to_string()),
            _ => None,
        });
        ts.push(match r { Ok(Some(t)) => format!("[{}]", jcps(&t)), Ok(None) => "[]".to_string(), Err(p) => format!("[{},{}]", jcps("panic"), jcps(&p)) });
    }
    let ins_j: Vec<String> = ins.iter().map(|s| jcps(s)).collect();
    o.line(&format!("{{\"op\":\"caprt\",\"def\":{},\"ins\":{},\"ts\":{}}}", def, jlist(&ins_j), jlist(&ts)));
}
