//! Support code shared by the generated conformance drivers.  Nothing in here knows what the
//! right answer is: it only runs calls, catches panics as data and writes what it saw as NDJSON.
use std::cell::RefCell;
use std::collections::HashMap;
use std::fmt::Write as _;
use std::io::Write as _;
use std::panic::{catch_unwind, AssertUnwindSafe};

// ------------------------------------------------------------------ output
pub struct Out {
    w: std::io::BufWriter<std::fs::File>,
    pub events: u64,
}
impl Out {
    pub fn create(path: &str) -> Out {
        Out { w: std::io::BufWriter::with_capacity(1 << 20, std::fs::File::create(path).expect("create trace")), events: 0 }
    }
    pub fn line(&mut self, s: &str) {
        self.w.write_all(s.as_bytes()).unwrap();
        self.w.write_all(b"\n").unwrap();
        self.events += 1;
    }
    pub fn finish(mut self) {
        self.w.flush().unwrap();
    }
    /// marks the start of one definition's driver and makes everything recorded so far durable: if the process dies inside
    /// that driver (stack overflow, abort), the harness knows which definition was running
    pub fn begin(&mut self, def: u32) {
        self.w.write_all(format!("{{\"op\":\"begin\",\"def\":{}}}\n", def).as_bytes()).unwrap();
        self.w.flush().unwrap();
    }
}

/// a string as a JSON array of code points
pub fn jcps(s: &str) -> String {
    let mut o = String::with_capacity(s.len() * 4 + 2);
    o.push('[');
    let mut first = true;
    for c in s.chars() {
        if !first { o.push(','); }
        first = false;
        write!(o, "{}", c as u32).unwrap();
    }
    o.push(']');
    o
}
pub fn jopt_cps(s: Option<&str>) -> String {
    match s { None => "[]".to_string(), Some(x) => format!("[{}]", jcps(x)) }
}
pub fn jlist<T: AsRef<str>>(xs: &[T]) -> String {
    let mut o = String::from("[");
    for (i, x) in xs.iter().enumerate() {
        if i > 0 { o.push(','); }
        o.push_str(x.as_ref());
    }
    o.push(']');
    o
}
pub fn jstrs<T: AsRef<str>>(xs: &[T]) -> String {
    let v: Vec<String> = xs.iter().map(|x| jcps(x.as_ref())).collect();
    jlist(&v)
}
pub fn jbool(b: bool) -> &'static str { if b { "true" } else { "false" } }

// ------------------------------------------------------------------ inputs
/// inputs file: one line per (definition id, string): "<id>\t<cp>,<cp>,..." (empty string = no code points)
pub fn load_inputs(path: &str) -> HashMap<u32, Vec<String>> {
    let mut m: HashMap<u32, Vec<String>> = HashMap::new();
    let txt = std::fs::read_to_string(path).expect("inputs file");
    for l in txt.lines() {
        let mut it = l.splitn(2, '\t');
        let id: u32 = it.next().unwrap().parse().unwrap();
        let rest = it.next().unwrap_or("");
        let s: String = if rest.is_empty() { String::new() } else {
            rest.split(',').map(|x| char::from_u32(x.parse::<u32>().unwrap()).unwrap()).collect()
        };
        m.entry(id).or_default().push(s);
    }
    m
}

// ------------------------------------------------------------------ panics are data
pub fn quiet_panics() {
    std::panic::set_hook(Box::new(|_| {}));
}
pub fn catch<T>(f: impl FnOnce() -> T) -> Result<T, String> {
    match catch_unwind(AssertUnwindSafe(f)) {
        Ok(v) => Ok(v),
        Err(e) => Err(if let Some(s) = e.downcast_ref::<&str>() { s.to_string() }
                      else if let Some(s) = e.downcast_ref::<String>() { s.clone() } else { "panic".to_string() }),
    }
}

// ------------------------------------------------------------------ rng (xorshift64*)
pub struct Rng(pub u64);
impl Rng {
    pub fn new(seed: u64) -> Rng { Rng(seed.wrapping_mul(0x9E3779B97F4A7C15) | 1) }
    pub fn next(&mut self) -> u64 {
        let mut x = self.0;
        x ^= x >> 12; x ^= x << 25; x ^= x >> 27;
        self.0 = x;
        x.wrapping_mul(0x2545F4914F6CDD1D)
    }
    pub fn below(&mut self, n: u64) -> u64 { if n == 0 { 0 } else { self.next() % n } }
}

// ------------------------------------------------------------------ things generated enums refer to
pub fn dw_u8() -> u8 { 7 }
pub fn dw_i32() -> i32 { -3 }
pub fn dw_bool() -> bool { true }
pub fn dw_string() -> String { String::from("dw") }
pub fn dw_opt() -> Option<u8> { Some(9) }
pub fn dw_tricky() -> Tricky { Tricky(5) }

/// a string-like inner type for default / transparent variants whose INHERENT methods carry the names of the conversion
/// traits' methods and answer differently: generated code must call the traits by path
#[derive(Debug, Clone, PartialEq, Default)]
pub struct TrickyStr(pub String);
impl<'x> From<&'x str> for TrickyStr { fn from(s: &'x str) -> Self { TrickyStr(s.to_string()) } }
impl AsRef<str> for TrickyStr { fn as_ref(&self) -> &str { &self.0 } }
impl core::fmt::Display for TrickyStr { fn fmt(&self, f: &mut core::fmt::Formatter) -> core::fmt::Result { core::fmt::Display::fmt(self.0.as_str(), f) } }
impl TrickyStr {
    pub fn as_ref(&self) -> &str { "inherent decoy" }
    pub fn into(self) -> &'static str { "inherent decoy" }
    pub fn to_string(&self) -> String { String::from("inherent decoy") }
    pub fn fmt(&self, f: &mut core::fmt::Formatter) -> core::fmt::Result { f.write_str("inherent decoy") }
    pub fn from(_s: &str) -> u8 { 0 }
}

/// a payload type whose `Default` panics: it sits on disabled variants only, whose payloads nothing may build
#[derive(Debug, Clone, PartialEq)]
pub struct PanicDefault(pub u8);
impl Default for PanicDefault { fn default() -> Self { panic!("Default of a disabled variant's payload was evaluated") } }

/// no Default
#[derive(Debug, Clone, PartialEq)]
pub struct NoDef(pub u8);

/// Debug, no Display
#[derive(Debug, Clone, PartialEq)]
pub struct DbgOnly(pub u8);

/// a field type whose INHERENT `default()` is not its `Default::default()`: generated code must name the trait
#[derive(Debug, Clone, PartialEq, Eq, Hash, PartialOrd, Ord)]
pub struct Tricky(pub u8);
impl Tricky { pub const fn default() -> Self { Tricky(9) } }
impl Default for Tricky { fn default() -> Self { Tricky(0) } }

#[derive(Debug, Clone, PartialEq)]
pub struct Arr<const N: usize>(pub [u8; N]);
impl<const N: usize> Default for Arr<N> { fn default() -> Self { Arr([0; N]) } }
impl<const N: usize> Arr<N> { pub fn filled(x: u8) -> Self { Arr([x; N]) } }

/// user-defined parse error: records every invocation of the constructor function
#[derive(Debug, Clone, PartialEq)]
pub struct UserErr(pub String);
thread_local! { static USER_ERR_LOG: RefCell<Vec<String>> = RefCell::new(Vec::new()); }
pub fn user_err(s: &str) -> UserErr {
    USER_ERR_LOG.with(|l| l.borrow_mut().push(s.to_string()));
    UserErr(s.to_string())
}
impl<'x> From<&'x str> for UserErr { fn from(s: &'x str) -> UserErr { user_err(s) } }
/// an error function that is generic in its RETURN type (`parse_err_fn = err_into`); only the declared error type pins it down
pub fn err_into<X: for<'x> From<&'x str>>(s: &str) -> X { X::from(s) }
/// an inherent method named like a conversion trait's: generated code must not reach conversions through method-call syntax
impl UserErr { pub fn into(self) -> UserErr { UserErr(String::from("inherent decoy")) } }
pub fn user_err_generic<S: AsRef<str>>(s: S) -> UserErr { user_err(s.as_ref()) }
/// a generic user error type (its parameter is the enum's own type parameter)
#[derive(Debug, Clone, PartialEq)]
pub struct GenErr<T>(pub String, pub core::marker::PhantomData<T>);
pub fn gen_err<T>(s: &str) -> GenErr<T> {
    USER_ERR_LOG.with(|l| l.borrow_mut().push(s.to_string()));
    GenErr(s.to_string(), core::marker::PhantomData)
}
impl<T> ErrProbe for GenErr<T> {
    fn enc(&self) -> (&'static str, Option<String>) { ("ue", Some(self.0.clone())) }
}
pub fn user_err_calls() -> usize { USER_ERR_LOG.with(|l| l.borrow().len()) }
pub fn user_err_take() -> Vec<String> { USER_ERR_LOG.with(|l| std::mem::take(&mut *l.borrow_mut())) }

// ------------------------------------------------------------------ probes
pub trait Probe {
    fn decl_index(&self) -> usize;
    fn payload_ok(&self) -> bool;
    /// the inner value of a default (catch-all) variant rendered with `{}`, if this is one
    fn captured(&self) -> Option<String>;
}
pub trait ErrProbe {
    /// ("nf", None) for strum::ParseError::VariantNotFound, ("ue", Some(payload)) for UserErr
    fn enc(&self) -> (&'static str, Option<String>);
    /// Display / Debug / Error surface of the error value as JSON members (None: nothing to observe)
    fn surface(&self) -> Option<String> { None }
}
impl ErrProbe for strum::ParseError {
    fn enc(&self) -> (&'static str, Option<String>) { match self { strum::ParseError::VariantNotFound => ("nf", None) } }
    fn surface(&self) -> Option<String> {
        use std::collections::hash_map::DefaultHasher;
        use std::hash::{Hash, Hasher};
        let c = *self;                       // Copy
        let d = self.clone();                // Clone
        let h = |x: &strum::ParseError| { let mut s = DefaultHasher::new(); x.hash(&mut s); s.finish() };
        let e: &dyn std::error::Error = self;
        #[allow(deprecated)]
        let descr = e.description().to_string();
        Some(format!("\"display\":{},\"debug\":{},\"padded\":{},\"descr\":{},\"source_none\":{},\"eq_copy\":{},\"hash_same\":{},\"dyn_display\":{}",
            jcps(&self.to_string()), jcps(&format!("{:?}", self)), jcps(&format!("{:>30}", self)), jcps(&descr),
            jbool(e.source().is_none()), jbool(c == *self && d == *self), jbool(h(&c) == h(self)), jcps(&e.to_string())))
    }
}
impl ErrProbe for UserErr {
    fn enc(&self) -> (&'static str, Option<String>) { ("ue", Some(self.0.clone())) }
}

/// what the error of a failed parse offers besides its identity (strum::ParseError only); one event
pub fn perr_event<E, X>(o: &mut Out, def: u32, s: &str)
where E: Probe + core::str::FromStr<Err = X>, X: ErrProbe {
    if let Ok(Err(x)) = catch(|| <E as core::str::FromStr>::from_str(s)) {
        if let Some(body) = x.surface() {
            o.line(&format!("{{\"op\":\"perr\",\"def\":{},\"input\":{},{}}}", def, jcps(s), body));
        }
    }
}

/// one parse result as a JSON record {k,i,pd,s,uc,ua}
pub fn enc_result<E: Probe, X: ErrProbe>(r: &Result<Result<E, X>, String>, calls: &[String]) -> String {
    let ua: Vec<String> = calls.iter().map(|c| jcps(c)).collect();
    match r {
        Err(p) => format!("{{\"k\":\"panic\",\"i\":0,\"pd\":false,\"s\":{},\"uc\":{},\"ua\":{}}}", jcps(p), calls.len(), jlist(&ua)),
        Ok(Ok(v)) => match v.captured() {
            Some(c) => format!("{{\"k\":\"c\",\"i\":{},\"pd\":true,\"s\":{},\"uc\":{},\"ua\":{}}}", v.decl_index(), jcps(&c), calls.len(), jlist(&ua)),
            None => format!("{{\"k\":\"v\",\"i\":{},\"pd\":{},\"s\":[],\"uc\":{},\"ua\":{}}}", v.decl_index(), jbool(v.payload_ok()), calls.len(), jlist(&ua)),
        },
        Ok(Err(x)) => {
            let (k, p) = x.enc();
            format!("{{\"k\":\"{}\",\"i\":0,\"pd\":false,\"s\":{},\"uc\":{},\"ua\":{}}}", k, jcps(p.as_deref().unwrap_or("")), calls.len(), jlist(&ua))
        }
    }
}

/// Run FromStr and TryFrom<&str> on every input; one batched event.
pub fn parse_batch<E, X>(o: &mut Out, def: u32, ins: &[String])
where
    E: Probe + core::str::FromStr<Err = X> + for<'x> core::convert::TryFrom<&'x str, Error = X>,
    X: ErrProbe,
{
    let mut res: Vec<String> = Vec::with_capacity(ins.len());
    let mut tf: Vec<String> = Vec::new();
    let mut tf_same = true;
    for (n, s) in ins.iter().enumerate() {
        user_err_take();
        let r = catch(|| <E as core::str::FromStr>::from_str(s));
        let c1 = user_err_take();
        let t = catch(|| <E as core::convert::TryFrom<&str>>::try_from(s.as_str()));
        let c2 = user_err_take();
        let a = enc_result(&r, &c1);
        let b = enc_result(&t, &c2);
        if a != b {
            tf_same = false;
            tf.push(format!("{{\"n\":{},\"r\":{}}}", n + 1, b));
        }
        res.push(a);
    }
    let ins_j: Vec<String> = ins.iter().map(|s| jcps(s)).collect();
    o.line(&format!("{{\"op\":\"parse\",\"def\":{},\"ins\":{},\"res\":{},\"tf_same\":{},\"tf\":{}}}",
        def, jlist(&ins_j), jlist(&res), jbool(tf_same), jlist(&tf)));
}

/// parse one string with FromStr; JSON record of the result
pub fn parse_one<E, X>(s: &str) -> String
where E: Probe + core::str::FromStr<Err = X>, X: ErrProbe {
    user_err_take();
    let r = catch(|| <E as core::str::FromStr>::from_str(s));
    let c = user_err_take();
    enc_result(&r, &c)
}

// ------------------------------------------------------------------ format-spec grid
/// (fill, align, width, precision): align 'n' = none given
pub type Spec = (char, char, usize, Option<usize>);
macro_rules! f2 {
    ($a:literal, $b:literal, $x:expr, $w:expr, $p:expr) => {
        match $p { None => format!($a, $x, $w), Some(p) => format!($b, $x, $w, p) }
    };
}
pub fn fmt_spec<T: core::fmt::Display + ?Sized>(x: &T, s: Spec) -> String {
    let (fill, align, w, p) = s;
    match (fill, align) {
        (' ', 'n') => f2!("{:1$}", "{:1$.2$}", x, w, p),
        (' ', '<') => f2!("{:<1$}", "{:<1$.2$}", x, w, p),
        (' ', '^') => f2!("{:^1$}", "{:^1$.2$}", x, w, p),
        (' ', '>') => f2!("{:>1$}", "{:>1$.2$}", x, w, p),
        ('*', '<') => f2!("{:*<1$}", "{:*<1$.2$}", x, w, p),
        ('*', '^') => f2!("{:*^1$}", "{:*^1$.2$}", x, w, p),
        ('*', '>') => f2!("{:*>1$}", "{:*>1$.2$}", x, w, p),
        ('é', '<') => f2!("{:é<1$}", "{:é<1$.2$}", x, w, p),
        ('é', '^') => f2!("{:é^1$}", "{:é^1$.2$}", x, w, p),
        ('é', '>') => f2!("{:é>1$}", "{:é>1$.2$}", x, w, p),
        _ => panic!("spec not in grid"),
    }
}
pub fn grid() -> Vec<Spec> {
    let dense = std::env::var("VERIF_GRID").map(|v| v == "thorough").unwrap_or(false);
    let widths: Vec<usize> = if dense { (0..=16).collect() } else { vec![0, 1, 2, 5, 9, 16] };
    let precs: Vec<Option<usize>> = if dense { std::iter::once(None).chain((0..=8).map(Some)).collect() } else { vec![None, Some(0), Some(1), Some(3), Some(8)] };
    let mut g = Vec::new();
    for (f, a) in [(' ', 'n'), (' ', '<'), (' ', '^'), (' ', '>'), ('*', '<'), ('*', '^'), ('*', '>'), ('é', '<'), ('é', '^'), ('é', '>')] {
        for w in &widths { for p in &precs { g.push((f, a, *w, *p)); } }
    }
    g
}
pub fn jspecs(g: &[Spec]) -> String {
    let v: Vec<String> = g.iter().map(|(f, a, w, p)| format!("{{\"fill\":{},\"align\":\"{}\",\"width\":{},\"prec\":{}}}", *f as u32, a, w, p.map(|x| x as i64).unwrap_or(-1))).collect();
    jlist(&v)
}
/// the value and a reference string (its plain `{}` rendering) under every spec of the grid
pub fn fmt_event<T: core::fmt::Display>(o: &mut Out, def: u32, i: usize, x: &T) {
    let g = grid();
    let name = format!("{}", x);
    let outs: Vec<String> = g.iter().map(|s| jcps(&fmt_spec(x, *s))).collect();
    let stds: Vec<String> = g.iter().map(|s| jcps(&fmt_spec(name.as_str(), *s))).collect();
    o.line(&format!("{{\"op\":\"fmt\",\"def\":{},\"i\":{},\"specs\":{},\"outs\":{},\"std\":{}}}", def, i, jspecs(&g), jlist(&outs), jlist(&stds)));
}
/// extra flag combinations (sign, zero padding, alternate) - only compared outer vs inner
macro_rules! extra_specs {
    ($x:expr) => {
        vec![format!("{:+}", $x), format!("{:08}", $x), format!("{:+08}", $x), format!("{:#}", $x), format!("{:>+6}", $x),
             format!("{:#^9}", $x), format!("{:<08}", $x), format!("{:0<+7.1}", $x)]
    };
}
/// the outer value and its inner value under every spec of the grid plus the extra flag combinations
pub fn fwd_event<T: core::fmt::Display, U: core::fmt::Display + ?Sized>(o: &mut Out, def: u32, i: usize, x: &T, inner: &U) {
    let g = grid();
    let mut a: Vec<String> = g.iter().map(|s| jcps(&fmt_spec(x, *s))).collect();
    let mut b: Vec<String> = g.iter().map(|s| jcps(&fmt_spec(inner, *s))).collect();
    a.extend(extra_specs!(x).iter().map(|s| jcps(s)));
    b.extend(extra_specs!(inner).iter().map(|s| jcps(s)));
    o.line(&format!("{{\"op\":\"fwd\",\"def\":{},\"i\":{},\"what\":\"display\",\"outer\":{},\"inner\":{}}}", def, i, jlist(&a), jlist(&b)));
}
pub fn fwd_str_event(o: &mut Out, def: u32, i: usize, what: &str, outer: &str, inner: &str) {
    o.line(&format!("{{\"op\":\"fwd\",\"def\":{},\"i\":{},\"what\":\"{}\",\"outer\":[{}],\"inner\":[{}]}}", def, i, what, jcps(outer), jcps(inner)));
}

/// from_str(s).to_string() for every input that ends up in a default (catch-all) variant
pub fn capture_batch<E, X>(o: &mut Out, def: u32, ins: &[String])
where E: Probe + core::fmt::Display + core::str::FromStr<Err = X>, X: ErrProbe {
    let mut ts: Vec<String> = Vec::with_capacity(ins.len());
    for s in ins {
        let r = catch(|| match <E as core::str::FromStr>::from_str(s) {
            Ok(v) if v.captured().is_some() => Some(v.to_string()),
            _ => None,
        });
        ts.push(match r { Ok(Some(t)) => format!("[{}]", jcps(&t)), Ok(None) => "[]".to_string(), Err(p) => format!("[{},{}]", jcps("panic"), jcps(&p)) });
    }
    let ins_j: Vec<String> = ins.iter().map(|s| jcps(s)).collect();
    o.line(&format!("{{\"op\":\"caprt\",\"def\":{},\"ins\":{},\"ts\":{}}}", def, jlist(&ins_j), jlist(&ts)));
}

// ------------------------------------------------------------------ iterator drivers (C04, C05, C08)
fn proj<E: Probe, I: Iterator<Item = E> + Clone>(it: &I) -> String {
    // the whole abstract state of a handle: what clone().collect() yields
    match catch(|| {
        let v = it.clone().map(|x| x.decl_index().to_string()).collect::<Vec<String>>();
        // count / last / fold (provided by Iterator, or specialised by the derive) have to describe the same list: -2 marks a disagreement
        let c = it.clone().count();
        let l = it.clone().last().map(|x| x.decl_index().to_string());
        let f = it.clone().fold(Vec::new(), |mut acc: Vec<String>, x| { acc.push(x.decl_index().to_string()); acc });
        if c != v.len() || l.as_ref() != v.last() || f != v { vec!["-2".to_string()] } else { v }
    }) {
        Ok(v) => jlist(&v),
        Err(_) => "[-1]".to_string(),
    }
}
/// (len, size_hint.0, size_hint.1) with panics as data (-1)
fn obs<E, I: Iterator<Item = E> + ExactSizeIterator>(it: &I) -> (i64, i64, i64) {
    match catch(|| { let sh = it.size_hint(); (it.len() as i64, sh.0 as i64, sh.1.map(|x| x as i64).unwrap_or(-1)) }) {
        Ok(t) => t,
        Err(_) => (-1, -1, -1),
    }
}
#[derive(Clone, Copy)]
pub enum ItOp { Next, NextBack, Nth(usize, bool), NthBack(usize, bool) }
fn op_name(op: ItOp) -> (&'static str, usize, bool, &'static str) {
    let big = |n: usize| if n == usize::MAX { "max" } else if n == usize::MAX - 1 { "max1" }
        else if n == 1usize << 8 { "2^8" } else if n == (1usize << 8) + 1 { "2^8+1" } else if n == 1usize << 16 { "2^16" }
        else if n == (1usize << 16) + 2 { "2^16+2" } else if n == 1usize << 32 { "2^32" } else if n == (1usize << 32) + 1 { "2^32+1" }
        else if n == (usize::MAX >> 1) + 1 { "2^63" } else { "" };
    match op {
        ItOp::Next => ("next", 0, false, ""),
        ItOp::NextBack => ("next_back", 0, false, ""),
        ItOp::Nth(n, b) => ("nth", if b { 0 } else { n }, b, big(n)),
        ItOp::NthBack(n, b) => ("nth_back", if b { 0 } else { n }, b, big(n)),
    }
}
fn apply<E: Probe, I>(it: &mut I, op: ItOp) -> Result<usize, String>
where I: Iterator<Item = E> + DoubleEndedIterator + ExactSizeIterator + Clone {
    catch(|| {
        let r = match op {
            ItOp::Next => it.next(),
            ItOp::NextBack => it.next_back(),
            ItOp::Nth(n, _) => it.nth(n),
            ItOp::NthBack(n, _) => it.nth_back(n),
        };
        r.map(|x| x.decl_index()).unwrap_or(0)
    })
}
fn log_op<E: Probe, I>(o: &mut Out, def: u32, prof: &str, from: i64, h: u32, op: ItOp, r: &Result<usize, String>, it: &I)
where I: Iterator<Item = E> + DoubleEndedIterator + ExactSizeIterator + Clone {
    let (name, n, big, bigk) = op_name(op);
    let (len, lo, hi) = obs(it);
    o.line(&format!("{{\"op\":\"it\",\"def\":{},\"prof\":\"{}\",\"call\":\"{}\",\"from\":{},\"h\":{},\"n\":{},\"big\":{},\"bigk\":\"{}\",\"res\":{},\"panic\":{},\"len\":{},\"lo\":{},\"hi\":{},\"rest\":{}}}",
        def, prof, name, from, h, n, jbool(big), bigk, r.as_ref().map(|x| *x as i64).unwrap_or(-1), jbool(r.is_err()), len, lo, hi, proj(it)));
}
pub fn it_args(n_enabled: usize) -> Vec<ItOp> {
    let mut v = vec![ItOp::Next, ItOp::NextBack];
    for k in 0..=(n_enabled + 1) { v.push(ItOp::Nth(k, false)); v.push(ItOp::NthBack(k, false)); }
    // arguments far beyond the end: the extremes, and values whose low bits are small (an argument cut down to a narrower integer
    // would look harmless); all of them exceed every enum of the corpus that is explored with this list
    for k in [usize::MAX - 1, usize::MAX, 1usize << 8, (1usize << 8) + 1, 1usize << 16, (1usize << 16) + 2, 1usize << 32, (1usize << 32) + 1,
              (usize::MAX >> 1) + 1] {
        if k > n_enabled + 1 { v.push(ItOp::Nth(k, true)); v.push(ItOp::NthBack(k, true)); }
    }
    v
}
fn log_new<E: Probe, I>(o: &mut Out, def: u32, prof: &str, h: u32, it: &I)
where I: Iterator<Item = E> + DoubleEndedIterator + ExactSizeIterator + Clone {
    let (len, lo, hi) = obs(it);
    o.line(&format!("{{\"op\":\"it\",\"def\":{},\"prof\":\"{}\",\"call\":\"new\",\"from\":-1,\"h\":{},\"n\":0,\"big\":false,\"bigk\":\"\",\"res\":0,\"panic\":{},\"len\":{},\"lo\":{},\"hi\":{},\"rest\":{}}}",
        def, prof, h, jbool(len < 0), len, lo, hi, proj(it)));
}
/// every operation sequence up to `depth`: each tree edge = clone the parent state into handle `level`, apply one call
pub fn iter_dfs<E: Probe, I>(o: &mut Out, def: u32, prof: &str, n_enabled: usize, root: I, depth: usize)
where I: Iterator<Item = E> + DoubleEndedIterator + ExactSizeIterator + Clone {
    log_new(o, def, prof, 0, &root);
    let ops = it_args(n_enabled);
    fn rec<E: Probe, I>(o: &mut Out, def: u32, prof: &str, ops: &[ItOp], parent: &I, level: u32, left: usize)
    where I: Iterator<Item = E> + DoubleEndedIterator + ExactSizeIterator + Clone {
        for op in ops {
            let mut c = parent.clone();
            let r = apply(&mut c, *op);
            log_op(o, def, prof, (level - 1) as i64, level, *op, &r, &c);
            if left > 1 && r.is_ok() { rec(o, def, prof, ops, &c, level + 1, left - 1); }
        }
    }
    if depth > 0 { rec(o, def, prof, &ops, &root, 1, depth); }
}
/// seeded random history with up to 4 live handles, explicit clones/drops and adapter observations
pub fn iter_random<E: Probe, I>(o: &mut Out, def: u32, prof: &str, n_enabled: usize, mk: &dyn Fn() -> I, steps: usize, seed: u64)
where I: Iterator<Item = E> + DoubleEndedIterator + ExactSizeIterator + Clone + core::fmt::Debug {
    let mut rng = Rng::new(seed ^ ((def as u64) << 20) ^ 0xabcdef);
    let mut hs: Vec<Option<I>> = vec![Some(mk()), None, None, None];
    log_new(o, def, prof, 10, hs[0].as_ref().unwrap());
    let ops = it_args(n_enabled);
    for _ in 0..steps {
        let live: Vec<usize> = (0..4).filter(|i| hs[*i].is_some()).collect();
        let free: Vec<usize> = (0..4).filter(|i| hs[*i].is_none()).collect();
        let a = live[rng.below(live.len() as u64) as usize];
        let choice = rng.below(12);
        if choice == 0 && !free.is_empty() {
            let b = free[0];
            let c = hs[a].as_ref().unwrap().clone();
            let (len, lo, hi) = obs(&c);
            o.line(&format!("{{\"op\":\"it\",\"def\":{},\"prof\":\"{}\",\"call\":\"clone\",\"from\":{},\"h\":{},\"n\":0,\"big\":false,\"bigk\":\"\",\"res\":0,\"panic\":{},\"len\":{},\"lo\":{},\"hi\":{},\"rest\":{}}}",
                def, prof, 10 + a, 10 + b, jbool(len < 0), len, lo, hi, proj(&c)));
            hs[b] = Some(c);
        } else if choice == 1 && live.len() > 1 {
            hs[a] = None;
            o.line(&format!("{{\"op\":\"it\",\"def\":{},\"prof\":\"{}\",\"call\":\"drop\",\"from\":-1,\"h\":{},\"n\":0,\"big\":false,\"bigk\":\"\",\"res\":0,\"panic\":false,\"len\":0,\"lo\":0,\"hi\":0,\"rest\":[]}}", def, prof, 10 + a));
        } else if choice == 2 && !free.is_empty() {
            let b = free[0];
            let c = mk();
            log_new(o, def, prof, (10 + b) as u32, &c);
            hs[b] = Some(c);
        } else if choice <= 5 {
            // adapters built on the iterator (observations on a clone; the handle does not move)
            let it = hs[a].as_ref().unwrap();
            let kind = rng.below(9);
            let small = rng.below(n_enabled as u64 + 2) as usize;
            if kind >= 5 {
                // consumers every Iterator has (count, last, fold, rfold): whether the derive leaves them to the provided methods or
                // defines them itself, they describe the same remaining list
                let name = ["count", "last", "fold", "rfold"][(kind - 5) as usize];
                let items = catch(|| {
                    let c = it.clone();
                    let v: Vec<String> = match kind {
                        5 => vec![c.count().to_string()],
                        6 => c.last().map(|x| vec![x.decl_index().to_string()]).unwrap_or_default(),
                        7 => c.fold(Vec::new(), |mut acc, x| { acc.push(x.decl_index().to_string()); acc }),
                        _ => c.rfold(Vec::new(), |mut acc, x| { acc.push(x.decl_index().to_string()); acc }),
                    };
                    v
                });
                o.line(&format!("{{\"op\":\"itobs\",\"def\":{},\"prof\":\"{}\",\"call\":\"{}\",\"h\":{},\"n\":0,\"big\":false,\"panic\":{},\"items\":{}}}",
                    def, prof, name, 10 + a, jbool(items.is_err()), items.map(|v| jlist(&v)).unwrap_or("[]".to_string())));
                continue;
            }
            if kind == 4 {
                // Debug of the iterator: `<Enum>Iter { len: <remaining> }`
                let d = catch(|| format!("{:?}", it));
                o.line(&format!("{{\"op\":\"itobs\",\"def\":{},\"prof\":\"{}\",\"call\":\"debug\",\"h\":{},\"n\":0,\"big\":false,\"panic\":{},\"items\":{}}}",
                    def, prof, 10 + a, jbool(d.is_err()), jcps(&d.unwrap_or_default())));
                continue;
            }
            let (name, n, big): (&str, usize, bool) = match kind {
                0 => ("skip", if rng.below(5) == 0 { usize::MAX } else { small }, false),
                1 => ("step_by", small + 1, false),
                2 => ("rev", 0, false),
                _ => ("take", small, false),
            };
            let big = n > n_enabled + 1;
            let items = catch(|| {
                let c = it.clone();
                let v: Vec<String> = match kind {
                    0 => c.skip(n).map(|x| x.decl_index().to_string()).collect(),
                    1 => c.step_by(n).map(|x| x.decl_index().to_string()).collect(),
                    2 => c.rev().map(|x| x.decl_index().to_string()).collect(),
                    _ => c.take(n).map(|x| x.decl_index().to_string()).collect(),
                };
                v
            });
            o.line(&format!("{{\"op\":\"itobs\",\"def\":{},\"prof\":\"{}\",\"call\":\"{}\",\"h\":{},\"n\":{},\"big\":{},\"panic\":{},\"items\":{}}}",
                def, prof, name, 10 + a, if big { 0 } else { n }, jbool(big), jbool(items.is_err()), items.map(|v| jlist(&v)).unwrap_or("[]".to_string())));
        } else {
            let op = ops[rng.below(ops.len() as u64) as usize];
            let it = hs[a].as_mut().unwrap();
            let r = apply(it, op);
            log_op(o, def, prof, -1, (10 + a) as u32, op, &r, &*it);
            if r.is_err() { break; }
        }
    }
}

// ------------------------------------------------------------------ FromRepr / EnumDiscriminants (C06, C09)
pub const BIG: i128 = 1 << 30;
/// exhaustive sweep of an 8/16-bit discriminant type
#[macro_export]
macro_rules! repr_sweep {
    ($o:expr, $def:expr, $E:ty, $R:ty, $anchor:expr) => {{
        let mut hits: Vec<String> = Vec::new();
        let mut d: $R = <$R>::MIN;
        loop {
            if let Some(v) = <$E>::from_repr(d) {
                hits.push(format!("[{},{},{}]", d as i128 - $anchor, $crate::Probe::decl_index(&v), $crate::Probe::payload_ok(&v) as u8));
            }
            if d == <$R>::MAX { break; }
            d += 1;
        }
        $o.line(&format!("{{\"op\":\"sweep\",\"def\":{},\"ty\":\"{}\",\"lo\":{},\"hi\":{},\"hits\":{}}}", $def, stringify!($R),
            <$R>::MIN as i128 - $anchor, <$R>::MAX as i128 - $anchor, $crate::jlist(&hits)));
    }};
}
/// probes of a wide discriminant type: the given absolute values plus MIN, MAX, 0 and seeded random values
#[macro_export]
macro_rules! repr_probes {
    ($o:expr, $def:expr, $E:ty, $R:ty, $anchor:expr, $vals:expr, $seed:expr) => {{
        let mut rng = $crate::Rng::new($seed ^ ($def as u64));
        let mut xs: Vec<i128> = $vals.to_vec();
        xs.extend([0i128, 1, -1, <$R>::MIN as i128, <$R>::MAX as i128, <$R>::MIN as i128 + 1, <$R>::MAX as i128 - 1, $anchor, $anchor + 1, $anchor - 1]);
        for _ in 0..40 { xs.push(rng.next() as i64 as i128); xs.push($anchor + (rng.below(64) as i128) - 32); }
        let mut out: Vec<String> = Vec::new();
        for x in xs {
            if let Ok(d) = <$R>::try_from(x) {
                let rel = x - $anchor;
                let big = rel.abs() > $crate::BIG;
                let (res, pd) = match <$E>::from_repr(d) { Some(v) => ($crate::Probe::decl_index(&v), $crate::Probe::payload_ok(&v) as u8), None => (0, 0) };
                out.push(format!("[{},{},{},{}]", if big { 0 } else { rel }, big as u8, res, pd));
            }
        }
        $o.line(&format!("{{\"op\":\"probes\",\"def\":{},\"ty\":\"{}\",\"probes\":{}}}", $def, stringify!($R), $crate::jlist(&out)));
    }};
}

// ------------------------------------------------------------------ EnumTable driver (C10)
/// implemented by generated code for `<Enum>Table<u8>`; keys are declaration indices
pub trait TableOps: Clone + PartialEq + core::hash::Hash + core::fmt::Debug {
    fn enabled() -> Vec<usize>;
    fn disabled() -> Vec<usize>;
    fn new_from(args: &[u8]) -> Self;                       // <Enum>Table::new(args[0], args[1], ..)
    fn filled(x: u8) -> Self;
    fn from_closure(f: &dyn Fn(usize) -> u8) -> Self;       // f receives the declaration index of the key
    fn transform(&self, f: &dyn Fn(usize, u8) -> u8) -> Self;
    fn read(&self, k: usize) -> u8;                         // table[key(k)]
    fn write(&mut self, k: usize, v: u8);                   // table[key(k)] = v
    fn all(mask: &[bool]) -> Option<Vec<u8>>;               // slot p = Some(10 + p) / None, then .all()
    fn all_ok(mask: &[bool]) -> Result<Vec<u8>, u8>;        // slot p = Ok(10 + p) / Err(p), then .all_ok()
    fn default_table() -> Self;
}
fn tb_slots<T: TableOps>(t: &T) -> String {
    let v: Vec<String> = T::enabled().iter().map(|k| match catch(|| t.read(*k)) { Ok(x) => x.to_string(), Err(_) => "-1".to_string() }).collect();
    jlist(&v)
}
fn tb_line(o: &mut Out, def: u32, call: &str, from: i64, h: u32, k: usize, v: i64, res: i64, panic: bool, slots: &str, extra: &str) {
    o.line(&format!("{{\"op\":\"tb\",\"def\":{},\"call\":\"{}\",\"from\":{},\"h\":{},\"k\":{},\"v\":{},\"res\":{},\"panic\":{},\"slots\":{}{}}}",
        def, call, from, h, k, v, res, jbool(panic), slots, extra));
}
pub fn table_drive<T: TableOps>(o: &mut Out, def: u32, depth: usize, steps: usize, seed: u64) {
    let en = T::enabled();
    let dis = T::disabled();
    let n = en.len();
    // constructors, each with distinct values per slot so that a swapped pair shows
    let args: Vec<u8> = (0..n).map(|p| 100 + p as u8).collect();
    let args_j: Vec<String> = args.iter().map(|x| x.to_string()).collect();
    match catch(|| T::new_from(&args)) {
        Ok(t) => tb_line(o, def, "new", -1, 0, 0, 0, 0, false, &tb_slots(&t), &format!(",\"args\":{}", jlist(&args_j))),
        Err(_) => tb_line(o, def, "new", -1, 0, 0, 0, 0, true, "[]", &format!(",\"args\":{}", jlist(&args_j))),
    }
    let t0 = T::filled(2);
    tb_line(o, def, "filled", -1, 1, 0, 2, 0, false, &tb_slots(&t0), "");
    let tc = T::from_closure(&|k| (3 * k + 1) as u8);
    tb_line(o, def, "closure", -1, 2, 0, 0, 0, false, &tb_slots(&tc), "");
    let tt = tc.transform(&|k, old| ((2 * old as usize + k) % 251) as u8);
    tb_line(o, def, "transform", 2, 3, 0, 0, 0, false, &tb_slots(&tt), &format!(",\"src_slots\":{}", tb_slots(&tc)));
    let td = T::default_table();
    tb_line(o, def, "default", -1, 4, 0, 0, 0, false, &tb_slots(&td), "");
    // clone: equal and independent
    { let c = tt.clone(); let eq = c == tt; tb_line(o, def, "clone", 3, 5, 0, 0, eq as i64, false, &tb_slots(&c), "");
      let mut c2 = c.clone(); if n > 0 { c2.write(en[0], 77); }
      tb_line(o, def, "read", -1, 5, if n > 0 { en[0] } else { 0 }, 0, if n > 0 { c.read(en[0]) as i64 } else { 0 }, false, &tb_slots(&c), ""); }
    // PartialEq / Hash of the table agree with slot-wise equality (handles 2 = from_closure, 3 = transform, 5 = clone of 3)
    {
        use std::hash::{Hash, Hasher};
        let h = |x: &T| { let mut s = std::collections::hash_map::DefaultHasher::new(); x.hash(&mut s); s.finish() };
        let c = tt.clone();
        for (a, b, ha, hb) in [(&tc, &tt, 2, 3), (&tt, &c, 3, 5), (&tc, &tc, 2, 2)] {
            o.line(&format!("{{\"op\":\"tb\",\"def\":{},\"call\":\"eq\",\"from\":{},\"h\":{},\"k\":0,\"v\":{},\"res\":{},\"panic\":false,\"slots\":[]}}",
                def, ha, hb, (h(a) == h(b)) as u8, (a == b) as u8));
        }
    }
    // every Some/None and Ok/Err mask
    {
        // (every mask up to 6 slots; beyond that: all present, none present, each single absent slot, and pairs of absent slots
        // with the last / the first one - 8, 16, 24 slots are where a packed presence mask has a full last byte)
        let mut masks: Vec<Vec<bool>> = Vec::new();
        if n <= 6 {
            for m in 0..(1u32 << n) { masks.push((0..n).map(|p| m >> p & 1 == 1).collect()); }
        } else {
            masks.push(vec![true; n]);
            masks.push(vec![false; n]);
            for p in 0..n { let mut v = vec![true; n]; v[p] = false; masks.push(v); }
            for p in 0..n - 1 { let mut v = vec![true; n]; v[p] = false; v[n - 1] = false; masks.push(v); }
            for p in 1..n { let mut v = vec![true; n]; v[p] = false; v[0] = false; masks.push(v); }
        }
        for mask in masks {
            let mj: Vec<String> = mask.iter().map(|b| (*b as u8).to_string()).collect();
            match catch(|| T::all(&mask)) {
                Ok(Some(v)) => tb_line(o, def, "all", -1, 0, 0, 0, 1, false, &jlist(&v.iter().map(|x| x.to_string()).collect::<Vec<_>>()), &format!(",\"mask\":{}", jlist(&mj))),
                Ok(None) => tb_line(o, def, "all", -1, 0, 0, 0, 0, false, "[]", &format!(",\"mask\":{}", jlist(&mj))),
                Err(_) => tb_line(o, def, "all", -1, 0, 0, 0, 0, true, "[]", &format!(",\"mask\":{}", jlist(&mj))),
            }
            match catch(|| T::all_ok(&mask)) {
                Ok(Ok(v)) => tb_line(o, def, "all_ok", -1, 0, 0, 0, 0, false, &jlist(&v.iter().map(|x| x.to_string()).collect::<Vec<_>>()), &format!(",\"mask\":{}", jlist(&mj))),
                Ok(Err(p)) => tb_line(o, def, "all_ok", -1, 0, 0, 0, p as i64, false, "[]", &format!(",\"mask\":{}", jlist(&mj))),
                Err(_) => tb_line(o, def, "all_ok", -1, 0, 0, 0, 0, true, "[]", &format!(",\"mask\":{}", jlist(&mj))),
            }
        }
    }
    // indexing with a disabled variant panics and changes nothing (Index, then IndexMut)
    for k in &dis {
        let r = catch(|| t0.read(*k));
        tb_line(o, def, "index_disabled", -1, 1, *k, 0, 0, r.is_err(), &tb_slots(&t0), "");
        let mut c = t0.clone();
        let r2 = catch(AssertUnwindSafe(|| c.write(*k, 9)));
        tb_line(o, def, "index_disabled", -1, 1, *k, 9, 0, r2.is_err(), &tb_slots(&c), "");
    }
    // EVERY write sequence up to `depth` over all keys and values {0,1,2}, each edge on a clone of its parent (handle = 10 + level)
    fn rec<T: TableOps>(o: &mut Out, def: u32, en: &[usize], parent: &T, level: u32, left: usize) {
        for k in en {
            for v in 0u8..3 {
                let mut c = parent.clone();
                let r = catch(AssertUnwindSafe(|| c.write(*k, v)));
                tb_line(o, def, "write", (level - 1) as i64, level, *k, v as i64, 0, r.is_err(), &tb_slots(&c), "");
                // read every key back explicitly
                if left == 1 { for k2 in en { let rr = catch(|| c.read(*k2)); tb_line(o, def, "read", -1, level, *k2, 0, rr.clone().map(|x| x as i64).unwrap_or(-1), rr.is_err(), &tb_slots(&c), ""); } }
                if left > 1 && r.is_ok() { rec(o, def, en, &c, level + 1, left - 1); }
            }
        }
    }
    // root of the tree = handle 10: a filled(1) table
    let root = T::filled(1);
    tb_line(o, def, "filled", -1, 10, 0, 1, 0, false, &tb_slots(&root), "");
    if depth > 0 && n > 0 { rec(o, def, &en, &root, 11, depth); }
    // long random write/read history in place on handle 1
    let mut rng = Rng::new(seed ^ ((def as u64) << 8));
    let mut t = t0;
    for _ in 0..steps {
        if n == 0 { break; }
        let k = en[rng.below(n as u64) as usize];
        if rng.below(3) == 0 {
            let r = catch(|| t.read(k));
            tb_line(o, def, "read", -1, 1, k, 0, r.clone().map(|x| x as i64).unwrap_or(-1), r.is_err(), &tb_slots(&t), "");
        } else {
            let v = rng.below(256) as u8;
            let r = catch(AssertUnwindSafe(|| t.write(k, v)));
            tb_line(o, def, "write", -1, 1, k, v as i64, 0, r.is_err(), &tb_slots(&t), "");
        }
    }
}
