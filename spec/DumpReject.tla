----------------------------- MODULE DumpReject -----------------------------
(* dumps the C20 instance list (one JSON object per line) for the conformance step *)
EXTENDS Reject, TLC, Json, IOUtils
SetToSeq(S) == CHOOSE f \in [1..Cardinality(S) -> S] : \A a, b \in 1..Cardinality(S) : a # b => f[a] # f[b]
RECURSIVE ToSeq(_)
ToSeq(S) == IF S = {} THEN <<>> ELSE LET x == CHOOSE x \in S : TRUE IN <<x>> \o ToSeq(S \ {x})
ASSUME ndJsonSerialize(IOEnv.OUT, ToSeq(Instances \cup Controls))
=============================================================================
