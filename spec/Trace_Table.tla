----------------------------- MODULE Trace_Table -----------------------------
(***************************************************************************)
(* Trace specification for EnumTable (C10): recorded constructor / write /   *)
(* read / all / all_ok calls on real tables, each with the full slot         *)
(* projection after the call, must be steps of Table.tla.                    *)
(***************************************************************************)
EXTENDS Table, TraceBase
VARIABLES l, E, EN, tbl, lost         \* tbl: handle -> sequence of slot values (position p <-> EN[p])
vars == <<l, E, EN, tbl, lost>>
Init == l = 1 /\ E = [id |-> 0] /\ EN = <<>> /\ tbl = <<>> /\ lost = {}
IsEvent(op) == l <= Len(Rec) /\ Rec[l].op = op /\ l' = l + 1
TbCall(c) == IsEvent("tb") /\ Rec[l].call = c

LoadDef == /\ IsEvent("def") /\ E' = Rec[l].d /\ EN' = EnabledList(Rec[l].d) /\ tbl' = <<>> /\ lost' = {}
PosOf(k) == LET c == {p \in 1..Len(EN) : EN[p] = k} IN IF c = {} THEN 0 ELSE CHOOSE p \in c : TRUE
Report(e, what, exp) == Mismatch(l, what, [def |-> E.id, call |-> e.call, from |-> e.from, handle |-> e.h, key |-> e.k, value |-> e.v,
                                           observed |-> [res |-> e.res, panic |-> e.panic, slots |-> e.slots], expected |-> exp])
Keep == UNCHANGED <<E, EN>>
\* a constructor: the new table's projection must be `want`
Construct(call, want(_)) ==
  /\ TbCall(call)
  /\ LET e == Rec[l] IN
     IF ~e.panic /\ e.slots = want(e) THEN tbl' = (e.h :> e.slots) @@ tbl /\ lost' = lost \ {e.h}
     ELSE Report(e, call, want(e)) /\ tbl' = tbl /\ lost' = lost \cup {e.h}
  /\ Keep
TbNew     == Construct("new", LAMBDA e : TNew(e.args))                 \* new(args..): slot p = p-th argument
TbFilled  == Construct("filled", LAMBDA e : TFilled(Len(EN), e.v))
TbClosure == Construct("closure", LAMBDA e : TFromClosure(EN))
TbTransform == /\ TbCall("transform")
               /\ LET e == Rec[l] IN
                  IF e.from \in lost \/ e.from \notin DOMAIN tbl THEN tbl' = tbl /\ lost' = lost \cup {e.h}
                  ELSE IF ~e.panic /\ e.slots = TTransform(EN, tbl[e.from]) /\ e.src_slots = tbl[e.from]
                       THEN tbl' = (e.h :> e.slots) @@ tbl /\ lost' = lost \ {e.h}
                       ELSE Report(e, "transform", [new |-> TTransform(EN, tbl[e.from]), source_unchanged |-> tbl[e.from]])
                            /\ tbl' = tbl /\ lost' = lost \cup {e.h}
               /\ Keep
\* write through IndexMut on a clone of `from` (a tree edge) or in place (from = -1)
TbWrite == /\ TbCall("write")
           /\ LET e == Rec[l]  src == IF e.from >= 0 THEN e.from ELSE e.h IN
              IF src \in lost \/ src \notin DOMAIN tbl THEN tbl' = tbl /\ lost' = lost \cup {e.h}
              ELSE LET want == TWrite(tbl[src], PosOf(e.k), e.v) IN
                   IF PosOf(e.k) # 0 /\ ~e.panic /\ e.slots = want THEN tbl' = (e.h :> want) @@ tbl /\ lost' = lost \ {e.h}
                   ELSE Report(e, "write", want) /\ tbl' = tbl /\ lost' = lost \cup {e.h}
           /\ Keep
TbRead == /\ TbCall("read")
          /\ LET e == Rec[l] IN
             IF e.h \in lost \/ e.h \notin DOMAIN tbl THEN TRUE
             ELSE Require(PosOf(e.k) # 0 /\ ~e.panic /\ e.res = TRead(tbl[e.h], PosOf(e.k)) /\ e.slots = tbl[e.h], l, "read",
                          [def |-> E.id, handle |-> e.h, key |-> e.k, observed |-> e.res, panic |-> e.panic, slots |-> e.slots, expected |-> tbl[e.h]])
          /\ UNCHANGED <<tbl, lost>> /\ Keep
\* indexing with a disabled variant panics (Index and IndexMut), and leaves the table as it was
TbDisabled == /\ TbCall("index_disabled")
              /\ LET e == Rec[l] IN
                 IF e.h \in lost \/ e.h \notin DOMAIN tbl THEN TRUE
                 ELSE Require(PosOf(e.k) = 0 /\ E.variants[e.k].dis /\ e.panic /\ e.slots = tbl[e.h], l, "index with a disabled variant",
                              [def |-> E.id, key |-> e.k, panicked |-> e.panic, slots |-> e.slots, expected |-> tbl[e.h]])
              /\ UNCHANGED <<tbl, lost>> /\ Keep
\* all(): mask[p] = slot p is Some(10 + p); res = the unwrapped table or <<>> for None
TbAll == /\ TbCall("all")
         /\ LET e == Rec[l]  m == [p \in 1..Len(e.mask) |-> e.mask[p] = 1] IN
            Require(Len(e.mask) = Len(EN) /\ ~e.panic /\
                    (IF AllSome(m) THEN e.res = 1 /\ e.slots = [p \in 1..Len(EN) |-> 10 + p] ELSE e.res = 0 /\ e.slots = <<>>),
                    l, "all", [def |-> E.id, mask |-> e.mask, observed |-> <<e.res, e.slots>>])
         /\ UNCHANGED <<tbl, lost>> /\ Keep
\* all_ok(): slot p is Ok(10 + p) or Err(p); res = 0 for Ok (slots = unwrapped table) else the Err payload
TbAllOk == /\ TbCall("all_ok")
           /\ LET e == Rec[l]  m == [p \in 1..Len(e.mask) |-> e.mask[p] = 1] IN
              Require(Len(e.mask) = Len(EN) /\ ~e.panic /\ e.res = FirstErr(m) /\
                      (IF AllSome(m) THEN e.slots = [p \in 1..Len(EN) |-> 10 + p] ELSE e.slots = <<>>),
                      l, "all_ok", [def |-> E.id, mask |-> e.mask, observed |-> <<e.res, e.slots>>, expected_err |-> FirstErr(m)])
           /\ UNCHANGED <<tbl, lost>> /\ Keep
\* std derives on the table: clone is an equal, independent copy; Default holds T::default() everywhere
TbClone == /\ TbCall("clone")
           /\ LET e == Rec[l] IN
              IF e.from \in lost \/ e.from \notin DOMAIN tbl THEN tbl' = tbl /\ lost' = lost \cup {e.h}
              ELSE IF ~e.panic /\ e.slots = tbl[e.from] /\ e.res = 1 THEN tbl' = (e.h :> e.slots) @@ tbl /\ lost' = lost \ {e.h}
              ELSE Report(e, "clone", tbl[e.from]) /\ tbl' = tbl /\ lost' = lost \cup {e.h}
           /\ Keep
\* derived PartialEq: equal iff slot-wise equal; derived Hash: equal tables hash equally (v = 1 iff the hashes agree)
TbEq == /\ TbCall("eq")
        /\ LET e == Rec[l] IN
           IF {e.from, e.h} \cap lost # {} \/ ~({e.from, e.h} \subseteq DOMAIN tbl) THEN TRUE
           \* (demanded by no listed property: an observation, not a violation)
           ELSE Observe((e.res = 1) = (tbl[e.from] = tbl[e.h]) /\ (tbl[e.from] = tbl[e.h] => e.v = 1), l, "table equality / hash",
                        [def |-> E.id, a |-> tbl[e.from], b |-> tbl[e.h], eq |-> e.res, same_hash |-> e.v])
        /\ UNCHANGED <<tbl, lost>> /\ Keep
TbDefault == Construct("default", LAMBDA e : TFilled(Len(EN), 0))
\* default() on a table of shared handles (Rc<Cell<u8>>): row w = the slots read after 5 was stored through slot w's handle.
\* Every slot holds its own default, so the change shows in slot w only (the frame condition, for values with interior state)
TbAlias == /\ IsEvent("tbalias")
           /\ LET e == Rec[l] IN
              Require(e.def = E.id /\ e.rows = [w \in 1..Len(EN) |-> [p \in 1..Len(EN) |-> IF p = w THEN 5 ELSE 0]], l,
                      "default(): slots share one value", [def |-> E.id, rows |-> e.rows])
           /\ UNCHANGED <<tbl, lost>> /\ Keep
Panicked == /\ IsEvent("panic")
            /\ Mismatch(l, "panic in generated code", [def |-> Rec[l].def, msg |-> Rec[l].msg])
            /\ UNCHANGED <<tbl, lost>> /\ Keep
Next == Panicked \/ TbAlias \/ TbEq \/ LoadDef \/ TbNew \/ TbFilled \/ TbClosure \/ TbTransform \/ TbWrite \/ TbRead \/ TbDisabled \/ TbAll \/ TbAllOk \/ TbClone \/ TbDefault
Spec == Init /\ [][Next]_vars
=============================================================================
