----------------------------- MODULE Trace_Repr -----------------------------
(***************************************************************************)
(* Trace specification for FromRepr (C06) and EnumDiscriminants (C09).      *)
(* Integers in events are relative to the definition's anchor; values that   *)
(* do not fit are logged by class (`big`), and every declared discriminant   *)
(* of such definitions is far from them.                                     *)
(***************************************************************************)
EXTENDS FromRepr, Heck, TraceBase

VARIABLES l, E, DV        \* DV[i] = Discr(E, i), computed once per definition
vars == <<l, E, DV>>
Init == l = 1 /\ E = [id |-> 0] /\ DV = <<>>
IsEvent(op) == l <= Len(Rec) /\ Rec[l].op = op /\ l' = l + 1

LoadDef == /\ IsEvent("def") /\ E' = Rec[l].d
           /\ DV' = [i \in 1..Len(Rec[l].d.variants) |-> Discr(Rec[l].d, i)]
En == {i \in 1..Len(E.variants) : ~E.variants[i].dis}
Spec0(d) == LET c == {i \in En : DV[i] = d} IN IF c = {} THEN 0 ELSE CHOOSE i \in c : TRUE

\* ground truth for the specification's own Discr: `v as R` (or the tag read through a pointer) observed
Cast == /\ IsEvent("cast")
        /\ LET e == Rec[l]
               bad == {k \in 1..Len(e.vals) : e.vals[k][2] # DV[e.vals[k][1]]} IN
           /\ Require(e.def = E.id, l, "cast: event is about another definition", e.def)
           /\ Require(bad = {}, l, "SPEC-ERROR cast: rustc's discriminant differs from Discr",
                      [def |-> E.id, observed |-> e.vals, Discr |-> DV])
        /\ UNCHANGED <<E, DV>>

\* exhaustive sweep of an 8/16-bit discriminant type: hits = every d with from_repr(d) = Some(v)
Sweep == /\ IsEvent("sweep")
         /\ LET e == Rec[l]
                obs == {<<e.hits[k][1], e.hits[k][2]>> : k \in 1..Len(e.hits)}
                want == {<<DV[i], i>> : i \in En} IN
            /\ Require(e.def = E.id, l, "sweep: event is about another definition", e.def)
            /\ Require(obs = want /\ Len(e.hits) = Cardinality(want) /\ \A k \in 1..Len(e.hits) : e.hits[k][3] = 1,
                       l, "from_repr sweep",
                       [def |-> E.id, ty |-> e.ty, swept |-> <<e.lo, e.hi>>, unexpected |-> obs \ want, missing |-> want \ obs,
                        payload_default |-> [k \in 1..Len(e.hits) |-> e.hits[k][3]]])
            /\ Require(\A i \in En : e.lo <= DV[i] /\ DV[i] <= e.hi, l, "sweep: range does not cover the discriminants", <<e.lo, e.hi>>)
         /\ UNCHANGED <<E, DV>>

\* probes of a wide discriminant type: [d, big (0/1), result, payload ok (0/1)]
Probes == /\ IsEvent("probes")
          /\ LET e == Rec[l]
                 ok(p) == IF p[2] = 1 THEN p[3] = 0 ELSE (p[3] = Spec0(p[1]) /\ (p[3] # 0 => p[4] = 1))
                 bad == {k \in 1..Len(e.probes) : ~ok(e.probes[k])} IN
             /\ Require(e.def = E.id, l, "probes: event is about another definition", e.def)
             /\ IF bad = {} THEN TRUE
                ELSE LET k == CHOOSE k \in bad : \A m \in bad : k <= m IN
                     Mismatch(l, "from_repr probe", [def |-> E.id, ty |-> e.ty, probe |-> e.probes[k],
                                                     expected |-> IF e.probes[k][2] = 1 THEN 0 ELSE Spec0(e.probes[k][1]),
                                                     nbad |-> Cardinality(bad)])
          /\ UNCHANGED <<E, DV>>

\* from_repr(v as R) == Some(v) for every enabled field-less v: ok = the variants for which it held
ReprRt == /\ IsEvent("reprrt")
          /\ LET e == Rec[l] IN
             Require(e.def = E.id /\ {e.ok[k] : k \in 1..Len(e.ok)} = En /\ Len(e.ok) = Cardinality(En), l, "from_repr(v as R)",
                     [def |-> E.id, held_for |-> e.ok, enabled |-> En])
          /\ UNCHANGED <<E, DV>>

\* ---- EnumDiscriminants (C09) -------------------------------------------------------------------
\* per value of variant i (several payloads): the discriminant-enum variant (by declaration index) returned by
\* From<E>, From<&E>, discriminant(); its integer value; and E's own tag where it can be observed
DiscEv == /\ IsEvent("disc")
          /\ LET e == Rec[l] IN
             /\ Require(e.def = E.id, l, "disc: event is about another definition", e.def)
             /\ Require(e.from = e.i /\ e.from_ref = e.i /\ (e.has_into = 1 => e.into = e.i) /\ e.as_int = DV[e.i]
                        /\ (e.has_tag = 1 => e.tag = DV[e.i]),
                        l, "discriminant conversion",
                        [def |-> E.id, variant |-> e.i, from |-> e.from, from_ref |-> e.from_ref, into |-> e.into,
                         as_int |-> e.as_int, tag |-> e.tag, Discr |-> DV[e.i]])
          /\ UNCHANGED <<E, DV>>
\* same #[repr]: size and alignment equal those of a hand-written field-less enum with the same repr lines
DLayout == /\ IsEvent("dlayout")
           /\ LET e == Rec[l] IN
              Require(e.def = E.id /\ e.size = e.ref_size /\ e.align = e.ref_align, l, "discriminant enum layout (repr)",
                      [def |-> E.id, size |-> e.size, align |-> e.align, ref_size |-> e.ref_size, ref_align |-> e.ref_align])
           /\ UNCHANGED <<E, DV>>
\* derives requested through strum_discriminants(derive(..)) and pass-through attributes take effect:
\* iteration order, printed names (under the passed-through serialize_all) and parsing them back
DDerives == /\ IsEvent("dderives")
            /\ LET e == Rec[l]
                   n == Len(E.variants)
                   \* a variant-level #[strum_discriminants(strum(serialize = ".."))] is passed through and names the variant
                   want == [i \in 1..n |-> IF E.variants[i].dser # <<>> THEN E.variants[i].dser[Len(E.variants[i].dser)]    \* the last = the longest literal
                                                                       ELSE Convert(E.dstyle, E.variants[i].id)] IN
               Require(e.def = E.id /\ e.iter = [i \in 1..n |-> i] /\ e.names = want /\ e.parsed = [i \in 1..n |-> i] /\ e.count = n,
                       l, "derives requested through strum_discriminants",
                       [def |-> E.id, iter |-> e.iter, names |-> e.names, parsed |-> e.parsed, count |-> e.count, expected_names |-> want])
            /\ UNCHANGED <<E, DV>>

Panicked == /\ IsEvent("panic")
            /\ Mismatch(l, "panic in generated code", [def |-> Rec[l].def, variant |-> Rec[l].i, msg |-> Rec[l].msg])
            /\ UNCHANGED <<E, DV>>
Next == LoadDef \/ Cast \/ Sweep \/ Probes \/ ReprRt \/ DiscEv \/ DLayout \/ DDerives \/ Panicked
Spec == Init /\ [][Next]_vars
=============================================================================
