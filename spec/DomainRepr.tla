----------------------------- MODULE DomainRepr -----------------------------
(* Domain pass for FromRepr / EnumDiscriminants candidates: rustc rejects an enum whose   *)
(* discriminant values collide, so such candidates are outside every derive's domain.     *)
EXTENDS FromRepr, Json, IOUtils, TLC
Defs == ndJsonDeserialize(IOEnv.DEFS)
Facts(E) == [id |-> E.id, distinct |-> DiscrDistinct(E), dv |-> [i \in 1..Len(E.variants) |-> Discr(E, i)]]
ASSUME ndJsonSerialize(IOEnv.OUT, [n \in 1..Len(Defs) |-> Facts(Defs[n])])
=============================================================================
