-------------------------------- MODULE Table --------------------------------
(***************************************************************************)
(* EnumTable (C10): a total map from the enabled variants of a field-less   *)
(* enum to values.  Abstract state of a table: a sequence of values, one    *)
(* per enabled variant in declaration order (position p <-> EN[p]).          *)
(* The closures used by every driver are fixed and part of the vocabulary:  *)
(*   from_closure(|k| 3*idx(k) + 1),  transform(|k, old| (2*old + idx(k)) % 251) *)
(***************************************************************************)
EXTENDS Naturals, Sequences, FiniteSets

EnabledList(E) == SelectSeq([i \in 1..Len(E.variants) |-> i], LAMBDA i : ~E.variants[i].dis)
ClosureF(i) == 3 * i + 1
TransformF(i, old) == (2 * old + i) % 251

\* constructors
TNew(vals) == vals                                           \* new(..) takes slots in declaration order
TFilled(n, x) == [p \in 1..n |-> x]
TFromClosure(EN) == [p \in 1..Len(EN) |-> ClosureF(EN[p])]
TTransform(EN, t) == [p \in 1..Len(EN) |-> TransformF(EN[p], t[p])]
\* Index / IndexMut
TRead(t, p) == t[p]
TWrite(t, p, v) == [t EXCEPT ![p] = v]
\* all(): Some iff every slot is Some; all_ok(): first Err in declaration order
AllSome(mask) == \A p \in 1..Len(mask) : mask[p]
FirstErr(mask) == IF AllSome(mask) THEN 0 ELSE CHOOSE p \in 1..Len(mask) : ~mask[p] /\ \A q \in 1..(p - 1) : mask[q]
=============================================================================
