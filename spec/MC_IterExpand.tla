---------------------------- MODULE MC_IterExpand ----------------------------
(***************************************************************************)
(* (A) for C04 / C08: the expansion loops of EnumIter (dense index that     *)
(* skips disabled variants), EnumCount (fold), VariantNames and             *)
(* VariantArray (one entry per declared variant), run one variant at a      *)
(* time over EVERY disabled mask of up to MaxV variants, produce the lists  *)
(* the specification names.                                                 *)
(***************************************************************************)
EXTENDS EnumIter
CONSTANTS MaxV

Masks(n) == [1..n -> BOOLEAN]
DefOf(n, m) == [variants |-> [i \in 1..n |-> [dis |-> m[i]]]]

VARIABLES E, i, idxCounter, table, count, names, array, pc
vars == <<E, i, idxCounter, table, count, names, array, pc, N, its>>

Init == /\ \E n \in 0..MaxV : \E m \in Masks(n) : E = DefOf(n, m)
        /\ i = 1 /\ idxCounter = 0 /\ table = <<>> /\ count = 0 /\ names = <<>> /\ array = <<>> /\ pc = "loop"
        /\ N = 0 /\ its = <<>>
Cur == E.variants[i]
\* enum_iter.rs: `continue` before the arm is pushed and before idx += 1; enum_count.rs: acc unchanged
SkipDisabled == /\ pc = "loop" /\ i <= Len(E.variants) /\ Cur.dis
                /\ names' = Append(names, i) /\ array' = Append(array, i)      \* VariantNames / VariantArray list every variant
                /\ i' = i + 1 /\ UNCHANGED <<E, idxCounter, table, count, pc, N, its>>
\* `#idx => Some(E::V)`, idx += 1; acc + 1
AssignIndex  == /\ pc = "loop" /\ i <= Len(E.variants) /\ ~Cur.dis
                /\ table' = [table EXCEPT ![idxCounter + 1] = i] @@ ((idxCounter + 1) :> i)
                /\ idxCounter' = idxCounter + 1 /\ count' = count + 1
                /\ names' = Append(names, i) /\ array' = Append(array, i)
                /\ i' = i + 1 /\ UNCHANGED <<E, pc, N, its>>
Finish       == /\ pc = "loop" /\ i > Len(E.variants) /\ pc' = "done" /\ N' = idxCounter
                /\ UNCHANGED <<E, i, idxCounter, table, count, names, array, its>>
Next_ == SkipDisabled \/ AssignIndex \/ Finish
Spec == Init /\ [][Next_]_vars

Done == pc = "done"
AsSeq(t) == [k \in 1..idxCounter |-> t[k]]
TableIsIterList == Done => AsSeq(table) = IterList(E)
CountIsLen      == Done => count = Count(E) /\ N = Count(E)
OnePerVariant   == Done => Len(names) = Len(E.variants) /\ Len(array) = Len(E.variants)
\* C08: without disabled variants position i denotes the same variant in all four
SamePositions   == Done /\ (\A k \in 1..Len(E.variants) : ~E.variants[k].dis) =>
                      /\ count = Len(names) /\ count = Len(array)
                      /\ \A k \in 1..count : table[k] = array[k] /\ names[k] = array[k]
\* disabled variants never appear, order is declaration order, nothing twice
StrictlyIncreasing == Done => \A a, b \in 1..idxCounter : a < b => table[a] < table[b]
NoDisabled         == Done => \A a \in 1..idxCounter : ~E.variants[table[a]].dis
=============================================================================
