SPECIFICATION Spec
CONSTANT Size = 1
CONSTANT Dedup = TRUE
CONSTANT Overlap = TRUE
INVARIANT ExpansionIsSpec
INVARIANT PhfCompiles
INVARIANT NeverDisabled
INVARIANT RoundTrip
INVARIANT AsciiOnly
INVARIANT FlagTable
CHECK_DEADLOCK FALSE
