------------------------------- MODULE MC_Meta -------------------------------
(***************************************************************************)
(* (A) for C14/C15: the arm lists EnumMessage and EnumProperty push while    *)
(* walking the variants (message arms, detailed arms with the fallback to    *)
(* message, documentation arms, per-type property buckets; `_ => None` added *)
(* iff a list is incomplete), evaluated first-match-wins, equal the          *)
(* declarative lookups on every definition of the universe.                  *)
(***************************************************************************)
EXTENDS Meta, TLC
CONSTANTS MaxV

M1 == <<109>>  D1 == <<100>>
DocPool == {<<>>, << <<32, 97>> >>, << <<97>>, <<>> >>, << <<32, 32, 98>>, <<32, 99>>, <<>> >>}
PropPool == {<<>>, << [key |-> <<107>>, ty |-> "s", val |-> <<118>>] >>,
             << [key |-> <<107>>, ty |-> "i", val |-> <<49>>], [key |-> <<107>>, ty |-> "s", val |-> <<119>>] >>,
             << [key |-> <<106>>, ty |-> "b", val |-> <<1>>], [key |-> <<107>>, ty |-> "b", val |-> <<0>>], [key |-> <<106>>, ty |-> "b", val |-> <<0>>] >>}
VariantsU == [dis : BOOLEAN, msg : {<<>>, <<M1>>}, dmsg : {<<>>, <<D1>>}, docs : DocPool, props : PropPool]
VARIABLES E, i, arms, darms, docarms, buckets, pc
vars == <<E, i, arms, darms, docarms, buckets, pc>>

Init == /\ \E n \in 1..MaxV : \E vs \in [1..n -> VariantsU] : E = [variants |-> vs]
        /\ i = 1 /\ arms = <<>> /\ darms = <<>> /\ docarms = <<>> /\ pc = "loop"
        /\ buckets = [t \in {"s", "i", "b"} |-> <<>>]
Cur == E.variants[i]
SkipDisabled == /\ pc = "loop" /\ i <= Len(E.variants) /\ Cur.dis
                /\ i' = i + 1 /\ UNCHANGED <<E, arms, darms, docarms, buckets, pc>>
PushArms == /\ pc = "loop" /\ i <= Len(E.variants) /\ ~Cur.dis
            /\ arms' = IF IsSome(Cur.msg) THEN Append(arms, [vi |-> i, val |-> Cur.msg]) ELSE arms
            /\ darms' = LET a == IF IsSome(Cur.msg) /\ ~IsSome(Cur.dmsg) THEN Append(darms, [vi |-> i, val |-> Cur.msg]) ELSE darms
                        IN IF IsSome(Cur.dmsg) THEN Append(a, [vi |-> i, val |-> Cur.dmsg]) ELSE a
            /\ docarms' = IF Cur.docs # <<>>
                          THEN Append(docarms, [vi |-> i, val |-> IF Len(Cur.docs) = 1 THEN Some(Strip1(Cur.docs[1])) ELSE Some(JoinNl(Cur.docs))])
                          ELSE docarms
            \* one match per variant and type: the variant's own key arms in order, then `_ => None`
            /\ buckets' = [t \in {"s", "i", "b"} |->
                             Append(buckets[t], [vi |-> i, keys |-> SelectSeq(Cur.props, LAMBDA p : p.ty = t)])]
            /\ i' = i + 1 /\ UNCHANGED <<E, pc>>
Finish == pc = "loop" /\ i > Len(E.variants) /\ pc' = "done" /\ UNCHANGED <<E, i, arms, darms, docarms, buckets>>
Next == SkipDisabled \/ PushArms \/ Finish
Spec == Init /\ [][Next]_vars

\* first arm for variant vi, else the `_ => None` arm (which exists iff the list is shorter than the variant list)
Lookup(as, vi) == LET c == {k \in 1..Len(as) : as[k].vi = vi} IN
                  IF c = {} THEN None ELSE as[CHOOSE k \in c : \A j \in c : k <= j].val
Exhaustive(as) == Len(as) >= Len(E.variants) => \A vi \in 1..Len(E.variants) : \E k \in 1..Len(as) : as[k].vi = vi
PropLookup(t, vi, key) == LET c == {k \in 1..Len(buckets[t]) : buckets[t][k].vi = vi} IN
                          IF c = {} THEN None
                          ELSE LET ks == buckets[t][CHOOSE k \in c : TRUE].keys
                                   h == {k \in 1..Len(ks) : ks[k].key = key} IN
                               IF h = {} THEN None ELSE Some(ks[CHOOSE k \in h : \A j \in h : k <= j].val)
Done == pc = "done"
Keys == {<<107>>, <<106>>, <<75>>}
MessageArms == Done => \A vi \in 1..Len(E.variants) : Lookup(arms, vi) = Msg(E.variants[vi])
DetailArms  == Done => \A vi \in 1..Len(E.variants) : Lookup(darms, vi) = Detail(E.variants[vi])
DocArms     == Done => \A vi \in 1..Len(E.variants) : Lookup(docarms, vi) = Doc(E.variants[vi])
\* the generated `match self` must be exhaustive without a wildcard exactly when every variant has an arm
MatchesCompile == Done => Exhaustive(arms) /\ Exhaustive(darms) /\ Exhaustive(docarms)
PropBuckets == Done => \A vi \in 1..Len(E.variants), t \in {"s", "i", "b"}, key \in Keys :
                  PropLookup(t, vi, key) = Prop(E.variants[vi], key, t)
=============================================================================
