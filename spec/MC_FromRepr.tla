----------------------------- MODULE MC_FromRepr -----------------------------
(***************************************************************************)
(* (A) for C06: the FromRepr expansion loop, one variant at a time.  The     *)
(* code defines a constant per variant (`explicit`, else `previous + 1`,     *)
(* else 0) and pushes a guard arm `v if v == CONST`.  DefineAll = TRUE is    *)
(* the repaired loop (constant defined for every variant, arm only for       *)
(* enabled ones); FALSE is the pinned loop, which skips a disabled variant   *)
(* BEFORE its constant is defined, so later implicit values drift.           *)
(***************************************************************************)
EXTENDS FromRepr, TLC
CONSTANTS MaxV, DefineAll

Explicit == {<<>>, <<-2>>, <<0>>, <<1>>, <<5>>}
VariantsU == [disc : Explicit, dis : BOOLEAN]
Seqs(n) == [1..n -> VariantsU]
VARIABLES E, i, prev, consts, arms, pc
vars == <<E, i, prev, consts, arms, pc>>
NoPrev == 1000

Init == /\ \E n \in 0..MaxV : \E vs \in Seqs(n) : E = [variants |-> vs] /\ DiscrDistinct([variants |-> vs])
        /\ i = 1 /\ prev = NoPrev /\ consts = <<>> /\ arms = <<>> /\ pc = "loop"
Cur == E.variants[i]
ConstVal == IF Cur.disc # <<>> THEN Cur.disc[1] ELSE IF prev = NoPrev THEN 0 ELSE prev + 1
\* pinned code: `if disabled { continue }` at the top of the loop body
SkipDisabledBeforeConst == /\ pc = "loop" /\ i <= Len(E.variants) /\ Cur.dis /\ ~DefineAll
                           /\ i' = i + 1 /\ UNCHANGED <<E, prev, consts, arms, pc>>
\* repaired code: the constant is defined (it feeds `previous + 1`), only the arm is skipped
DefineConstOnly == /\ pc = "loop" /\ i <= Len(E.variants) /\ Cur.dis /\ DefineAll
                   /\ consts' = Append(consts, ConstVal) /\ prev' = ConstVal
                   /\ i' = i + 1 /\ UNCHANGED <<E, arms, pc>>
DefineConstAndArm == /\ pc = "loop" /\ i <= Len(E.variants) /\ ~Cur.dis
                     /\ consts' = Append(consts, ConstVal) /\ prev' = ConstVal
                     /\ arms' = Append(arms, [c |-> ConstVal, vi |-> i])
                     /\ i' = i + 1 /\ UNCHANGED <<E, pc>>
Finish == pc = "loop" /\ i > Len(E.variants) /\ pc' = "done" /\ UNCHANGED <<E, i, prev, consts, arms>>
Next == SkipDisabledBeforeConst \/ DefineConstOnly \/ DefineConstAndArm \/ Finish
Spec == Init /\ [][Next]_vars

\* first matching guard arm, `_ => None`
EvalArms(d) == LET c == {k \in 1..Len(arms) : arms[k].c = d} IN
               IF c = {} THEN 0 ELSE arms[CHOOSE k \in c : \A j \in c : k <= j].vi
Probe == -4..12
ExpansionIsSpec == pc = "done" => \A d \in Probe : EvalArms(d) = FromReprSpec(E, d)
RoundTrip == pc = "done" => \A v \in Enabled(E) : EvalArms(Discr(E, v)) = v
NeverDisabled == pc = "done" => \A d \in Probe : EvalArms(d) # 0 => ~E.variants[EvalArms(d)].dis
=============================================================================
