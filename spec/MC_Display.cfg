SPECIFICATION Spec
CONSTANT LitLen = 5
CONSTANT MaxW = 6
INVARIANT MachineIsScan
INVARIANT ScannerFindsGrammarArgs
INVARIANT NoBracesNoArgs
INVARIANT FmtLen
CHECK_DEADLOCK FALSE
