-------------------------------- MODULE Meta --------------------------------
(***************************************************************************)
(* Per-variant metadata derives: EnumIs / EnumTryAs (C13), EnumMessage      *)
(* (C14), EnumProperty (C15).                                               *)
(***************************************************************************)
EXTENDS FromStr

IsPrefix_ == <<105, 115, 95>>                     \* "is_"
TryAsPrefix == <<116, 114, 121, 95, 97, 115, 95>> \* "try_as_"
IsName(v) == IsPrefix_ \o Snakify(v.id)
TryAsName(v, suffix) == TryAsPrefix \o Snakify(v.id) \o suffix

\* domain of the generated method names: the documented naming is about PascalCase identifiers with
\* digits / acronyms; an underscore next to a digit, or two identifiers with the same snake form (rustc then
\* reports a duplicate method), are outside it
UnderscoreTouchesDigit(s) == \E k \in 1..(Len(s) - 1) : (s[k] = 95 /\ IsDigit(s[k + 1])) \/ (IsDigit(s[k]) /\ s[k + 1] = 95)
\* identifiers must stay inside the table of letters whose case mapping is modelled (Chars.InCaseTable)
NonAsciiSafe(s) == IdentInTable(s)
IsNamesWF(E) == /\ \A i \in Idx(E) : ~UnderscoreTouchesDigit(E.variants[i].id) /\ NonAsciiSafe(E.variants[i].id)
                /\ \A i, j \in Idx(E) : i # j => Snakify(E.variants[i].id) # Snakify(E.variants[j].id)

\* C14
Msg(v)    == IF v.dis THEN None ELSE v.msg
Detail(v) == IF v.dis THEN None ELSE IF IsSome(v.dmsg) THEN v.dmsg ELSE v.msg
Strip1(s) == IF s # <<>> /\ s[1] = 32 THEN Tail(s) ELSE s
RECURSIVE JoinNl(_)
JoinNl(ds) == IF ds = <<>> THEN <<>> ELSE Strip1(Head(ds)) \o <<10>> \o JoinNl(Tail(ds))
Doc(v)    == IF v.dis \/ v.docs = <<>> THEN None
             ELSE IF Len(v.docs) = 1 THEN Some(Strip1(v.docs[1])) ELSE Some(JoinNl(v.docs))
Sers(E, v) == Spellings(E, v)

\* C15: props = sequence of [key, ty ("s" | "i" | "b"), val] over all props(...) groups in order
Prop(v, key, ty) == LET c == {k \in 1..Len(v.props) : v.props[k].key = key /\ v.props[k].ty = ty} IN
                    IF v.dis \/ c = {} THEN None ELSE Some(v.props[CHOOSE k \in c : \A j \in c : k <= j].val)
=============================================================================
