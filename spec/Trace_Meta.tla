----------------------------- MODULE Trace_Meta -----------------------------
(***************************************************************************)
(* Trace specification for EnumIs / EnumTryAs (C13), EnumMessage (C14) and  *)
(* EnumProperty (C15).                                                      *)
(***************************************************************************)
EXTENDS Meta, TraceBase
VARIABLES l, E
vars == <<l, E>>
Init == l = 1 /\ E = [id |-> 0]
IsEvent(op) == l <= Len(Rec) /\ Rec[l].op = op /\ l' = l + 1
LoadDef == IsEvent("def") /\ E' = Rec[l].d

EnabledSeq == SelectSeq([i \in 1..Len(E.variants) |-> i], LAMBDA i : ~E.variants[i].dis)
\* ---- is: all generated predicates on one value of variant i; m[k] = [j, name, val] for the k-th enabled variant j
IsEv == /\ IsEvent("is")
        /\ LET e == Rec[l]
               bad == {k \in 1..Len(e.m) : \/ e.m[k].j # EnabledSeq[k]
                                           \/ e.m[k].name # IsName(E.variants[e.m[k].j])
                                           \/ e.m[k].val # (e.m[k].j = e.i)} IN
           /\ Require(e.def = E.id /\ Len(e.m) = Len(EnabledSeq), l, "is: one predicate per enabled variant expected", Len(e.m))
           \* d: what answered under the names a disabled variant would get (a fallback trait answers false / None exactly when
           \* the derive generated no method of that name): for a disabled variant no predicate and no accessor exists
           /\ Require(\A k \in 1..Len(e.d) : E.variants[e.d[k].j].dis /\ e.d[k].name = IsName(E.variants[e.d[k].j]) /\ ~e.d[k].val /\ ~e.d[k].some,
                      l, "a method exists for a disabled variant", [def |-> E.id, value_of_variant |-> e.i, observed |-> e.d])
           /\ Require(bad = {}, l, "is predicates",
                      [def |-> E.id, value_of_variant |-> e.i, wrong |-> {e.m[k] : k \in bad},
                       expected_names |-> [k \in 1..Len(EnabledSeq) |-> IsName(E.variants[EnabledSeq[k]])]])
        /\ UNCHANGED E
\* ---- try_as: method of tuple variant j called on a value of variant i; mode val / ref / mut
\* fields = the returned payload rendered field by field, want = the renderings of the values the value was built from;
\* mut: after writing new values through the &mut references, after = the value's fields re-read, want2 = what was written
TryAs == /\ IsEvent("tryas")
         /\ LET e == Rec[l]  v == E.variants[e.j] IN
            /\ Require(e.def = E.id /\ v.kind = "tuple" /\ ~v.dis /\ e.name = TryAsName(v, e.suffix), l,
                       "try_as: method name", [def |-> E.id, method_of |-> e.j, name |-> e.name, expected |-> TryAsName(v, e.suffix)])
            /\ Require(e.some = (e.i = e.j) /\ (e.some => e.fields = e.want)
                       /\ ((e.some /\ e.mode = "mut") => e.after = e.want2), l, "try_as",
                       [def |-> E.id, value_of_variant |-> e.i, method_of |-> e.j, mode |-> e.mode, some |-> e.some,
                        fields |-> e.fields, want |-> e.want, after |-> e.after, want2 |-> e.want2])
         /\ UNCHANGED E
\* ---- EnumMessage
MsgEv == /\ IsEvent("msg")
         /\ LET e == Rec[l]  v == E.variants[e.i] IN
            Require(e.def = E.id /\ e.message = Msg(v) /\ e.detail = Detail(v) /\ e.doc = Doc(v) /\ e.sers = Sers(E, v), l, "EnumMessage",
                    [def |-> E.id, variant |-> e.i, observed |-> [message |-> e.message, detail |-> e.detail, doc |-> e.doc, sers |-> e.sers],
                     expected |-> [message |-> Msg(v), detail |-> Detail(v), doc |-> Doc(v), sers |-> Sers(E, v)]])
         /\ UNCHANGED E
\* ---- EnumProperty: a batch of keys through all three getters on one value of variant i
PropEv == /\ IsEvent("prop")
          /\ LET e == Rec[l]  v == E.variants[e.i]
                 bad == {k \in 1..Len(e.keys) : \/ e.strs[k] # Prop(v, e.keys[k], "s")
                                                \/ e.ints[k] # Prop(v, e.keys[k], "i")
                                                \/ e.bools[k] # Prop(v, e.keys[k], "b")} IN
             /\ Require(e.def = E.id /\ Len(e.strs) = Len(e.keys) /\ Len(e.ints) = Len(e.keys) /\ Len(e.bools) = Len(e.keys), l, "prop: malformed", e.i)
             /\ IF bad = {} THEN TRUE
                ELSE LET k == CHOOSE k \in bad : \A m \in bad : k <= m IN
                     Mismatch(l, "EnumProperty", [def |-> E.id, variant |-> e.i, key |-> e.keys[k],
                                                  observed |-> <<e.strs[k], e.ints[k], e.bools[k]>>,
                                                  expected |-> <<Prop(v, e.keys[k], "s"), Prop(v, e.keys[k], "i"), Prop(v, e.keys[k], "b")>>,
                                                  nbad |-> Cardinality(bad)])
          /\ UNCHANGED E
Panicked == /\ IsEvent("panic")
            /\ Mismatch(l, "panic in generated code", [def |-> Rec[l].def, variant |-> Rec[l].i, msg |-> Rec[l].msg])
            /\ UNCHANGED E
Next == LoadDef \/ IsEv \/ TryAs \/ MsgEv \/ PropEv \/ Panicked
Spec == Init /\ [][Next]_vars
=============================================================================
