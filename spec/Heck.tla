-------------------------------- MODULE Heck --------------------------------
(***************************************************************************)
(* Case conversion as strum performs it: heck 0.5's word scanner           *)
(* (`transform`: split on non-alphanumerics, lower->Upper boundary,        *)
(* acronym boundary `UUl`), the per-style word casing and separators, and   *)
(* strum's own styles built on top of it (camelCase, lowercase, UPPERCASE, *)
(* SCREAMING-KEBAB-CASE) and `snakify` (digit runs split off).             *)
(*                                                                         *)
(* Two formulations are given and model-checked equal (MC_Heck):           *)
(*  - ScanWords: a transcription of the scanner (position, word start,     *)
(*    mode Boundary/Lowercase/Uppercase), i.e. shaped like the code;        *)
(*  - DeclWords: the set of boundary positions as a user would state it.   *)
(***************************************************************************)
EXTENDS Chars

Styles == {"camelCase", "PascalCase", "kebab-case", "snake_case", "SCREAMING_SNAKE_CASE",
           "SCREAMING-KEBAB-CASE", "lowercase", "UPPERCASE", "title_case", "mixed_case",
           "Train-Case"}
Aliases == {"camel_case", "snek_case", "kebab_case", "shouty_snake_case", "shouty_snek_case"}
AcceptedStyles == Styles \cup Aliases

StyleOf(t) == CASE t = "camel_case" -> "PascalCase"
                [] t = "snek_case" -> "snake_case"
                [] t = "kebab_case" -> "kebab-case"
                [] t \in {"shouty_snake_case", "shouty_snek_case"} -> "SCREAMING_SNAKE_CASE"
                [] OTHER -> t

-----------------------------------------------------------------------------
\* split on non-alphanumerics; segments may be empty
RECURSIVE SegsFrom(_, _, _)
SegsFrom(s, i, cur) == IF i > Len(s) THEN <<cur>>
                       ELSE IF IsAlnum(s[i]) THEN SegsFrom(s, i + 1, Append(cur, s[i]))
                       ELSE <<cur>> \o SegsFrom(s, i + 1, <<>>)
Segs(s) == SegsFrom(s, 1, <<>>)

\* ---- operational: heck's scanner on one segment ------------------------
\* i = current position, init = start of current word, mode in {"B","L","U"}
NextMode(c, mode) == IF UIsLower(c) THEN "L" ELSE IF UIsUpper(c) THEN "U" ELSE mode
BoundaryAfter(seg, i, mode)  == NextMode(seg[i], mode) = "L" /\ UIsUpper(seg[i + 1])
BoundaryBefore(seg, i, mode) == mode = "U" /\ UIsUpper(seg[i]) /\ UIsLower(seg[i + 1])

RECURSIVE ScanFrom(_, _, _, _)
ScanFrom(seg, i, init, mode) ==
  IF i > Len(seg) THEN <<>>
  ELSE IF i = Len(seg) THEN << SubSeq(seg, init, Len(seg)) >>
  ELSE IF BoundaryAfter(seg, i, mode)
         THEN << SubSeq(seg, init, i) >> \o ScanFrom(seg, i + 1, i + 1, "B")
  ELSE IF BoundaryBefore(seg, i, mode)
         THEN << SubSeq(seg, init, i - 1) >> \o ScanFrom(seg, i + 1, i, "B")
  ELSE ScanFrom(seg, i + 1, init, NextMode(seg[i], mode))
ScanSeg(seg) == ScanFrom(seg, 1, 1, "B")

RECURSIVE ScanAll(_)
ScanAll(segs) == IF segs = <<>> THEN <<>> ELSE ScanSeg(Head(segs)) \o ScanAll(Tail(segs))
ScanWords(s) == ScanAll(Segs(s))

\* ---- declarative: where are the word boundaries? ------------------------
\* EffCase(seg, p): case of the last cased character at or before p ("B" if none)
RECURSIVE EffCase(_, _)
EffCase(seg, p) == IF p = 0 THEN "B"
                   ELSE IF UIsLower(seg[p]) THEN "L"
                   ELSE IF UIsUpper(seg[p]) THEN "U"
                   ELSE EffCase(seg, p - 1)
\* a word ends after position p (1 <= p < Len) iff
\*   lower->Upper : the last cased char up to p is lowercase and seg[p+1] is uppercase, or
\*   acronym      : seg[p+1] is uppercase, seg[p+2] is lowercase, and the last cased char up to p
\*                  is uppercase (so "HTTPServer" splits before the S)
EndsAfter(seg, p) ==
  \/ EffCase(seg, p) = "L" /\ UIsUpper(seg[p + 1])
  \/ /\ p + 2 <= Len(seg)
     /\ UIsUpper(seg[p + 1]) /\ UIsLower(seg[p + 2]) /\ EffCase(seg, p) = "U"
Ends(seg) == {p \in 1..(Len(seg) - 1) : EndsAfter(seg, p)} \cup (IF seg = <<>> THEN {} ELSE {Len(seg)})
\* the k-th smallest element of a finite set of naturals
RECURSIVE SortedSeq(_)
SortedSeq(S) == IF S = {} THEN <<>>
                ELSE LET m == CHOOSE x \in S : \A y \in S : x <= y IN <<m>> \o SortedSeq(S \ {m})
DeclSeg(seg) == LET e == SortedSeq(Ends(seg)) IN
                [k \in 1..Len(e) |-> SubSeq(seg, (IF k = 1 THEN 1 ELSE e[k - 1] + 1), e[k])]
RECURSIVE DeclAll(_)
DeclAll(segs) == IF segs = <<>> THEN <<>> ELSE DeclSeg(Head(segs)) \o DeclAll(Tail(segs))
DeclWords(s) == DeclAll(Segs(s))

\* the rest of the specification uses the declarative form
Words(s) == DeclWords(s)

-----------------------------------------------------------------------------
ConvertWith(W(_), style, s) ==
  LET ws == W(s) IN
  CASE style = "snake_case"           -> Join(MapSeq(ws, ULower), <<95>>)
    [] style = "kebab-case"           -> Join(MapSeq(ws, ULower), <<45>>)
    [] style = "SCREAMING_SNAKE_CASE" -> Join(MapSeq(ws, UUpper), <<95>>)
    [] style = "SCREAMING-KEBAB-CASE" -> UUpper(Join(MapSeq(ws, ULower), <<45>>))
    [] style = "title_case"           -> Join(MapSeq(ws, UCapitalize), <<32>>)
    [] style = "Train-Case"           -> Join(MapSeq(ws, UCapitalize), <<45>>)
    [] style = "PascalCase"           -> Flat(MapSeq(ws, UCapitalize))
    [] style = "mixed_case"           -> IF ws = <<>> THEN <<>>
                                         ELSE ULower(ws[1]) \o Flat(MapSeq(Tail(ws), UCapitalize))
    [] style = "camelCase"            -> LET p == Flat(MapSeq(ws, UCapitalize)) IN
                                         IF p = <<>> THEN p ELSE <<ULo(p[1])>> \o Tail(p)
    [] style = "lowercase"            -> ULower(s)
    [] style = "UPPERCASE"            -> UUpper(s)
    [] style = "none"                 -> s

\* Convert(t, s): the identifier s under the serialize_all value t (aliases allowed; "none" = absent)
Convert(t, s)     == ConvertWith(DeclWords, StyleOf(t), s)
ConvertImpl(t, s) == ConvertWith(ScanWords, StyleOf(t), s)

\* strum's snakify: snake_case, then an underscore in front of every digit run that does not
\* start the string (heck keeps `Hello2You` as `hello2_you`; snakify gives `hello_2_you`)
Snake(s) == Convert("snake_case", s)
RECURSIVE InsertUs(_, _)
InsertUs(t, i) == IF i > Len(t) THEN <<>>
                  ELSE (IF IsDigit(t[i]) /\ i # 1 /\ ~IsDigit(t[i - 1]) THEN <<95, t[i]>> ELSE <<t[i]>>)
                       \o InsertUs(t, i + 1)
Snakify(s) == InsertUs(Snake(s), 1)

\* the identifiers on which this model of the conversion is faithful
IdentInTable(s) == \A k \in 1..Len(s) : InCaseTable(s[k])

\* style lemmas (checked in MC_Heck)
NoUpper(t) == \A i \in 1..Len(t) : ~UIsUpper(t[i])
NoLower(t) == \A i \in 1..Len(t) : ~UIsLower(t[i])
LettersDigits(t) == [i \in 1..Len(t) |-> t[i]]
OnlyAlnumOr(t, sep) == \A i \in 1..Len(t) : IsAlnum(t[i]) \/ t[i] = sep
=============================================================================
