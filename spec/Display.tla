------------------------------- MODULE Display -------------------------------
(***************************************************************************)
(* Display.                                                                 *)
(*  - FmtStr: how a &str is rendered under a format spec (fill, alignment,  *)
(*    width, precision) - what a fixed-name variant must look like (C17).   *)
(*  - Pieces / Interp: a to_string literal with {field} / {index}           *)
(*    placeholders rendered like format! does: `{{`/`}}` escapes, arguments *)
(*    bound by name or by position, each rendered under its own spec.       *)
(*  - StrumScan: the implementation-shaped model of strum's own brace       *)
(*    scanner (strip `{{` and `}}`, then scan byte-wise), model-checked     *)
(*    against the grammar in MC_Display.                                     *)
(***************************************************************************)
EXTENDS Names, Integers

\* sp = [fill : code point, align : "<" | "^" | ">" | "n", width : Nat, prec : -1 (none) | Nat]
FmtStr(s, sp) ==
  LET t   == IF sp.prec >= 0 THEN Take(s, sp.prec) ELSE s
      pad == IF sp.width > Len(t) THEN sp.width - Len(t) ELSE 0
      lft == CASE sp.align = ">" -> pad
               [] sp.align = "^" -> pad \div 2
               [] OTHER          -> 0            \* "<" and the default for strings
  IN Rep(sp.fill, lft) \o t \o Rep(sp.fill, pad - lft)

-----------------------------------------------------------------------------
LB == 123  RB == 125  Colon == 58

\* ---- grammar: pieces of a format literal ----------------------------------
\* a piece is [t |-> "text", s |-> chars] or [t |-> "arg", arg |-> name chars, spec |-> spec chars];
\* Bad is returned for a malformed literal
Bad == <<[t |-> "bad"]>>
IsBad(ps) == ps # <<>> /\ ps[Len(ps)].t = "bad"
RECURSIVE FindClose(_, _)
FindClose(s, i) == IF i > Len(s) THEN 0 ELSE IF s[i] = RB THEN i ELSE IF s[i] = LB THEN 0 ELSE FindClose(s, i + 1)
RECURSIVE FindColon(_, _)
FindColon(s, i) == IF i > Len(s) THEN 0 ELSE IF s[i] = Colon THEN i ELSE FindColon(s, i + 1)
RECURSIVE TrimEnd(_)
TrimEnd(s) == IF s # <<>> /\ s[Len(s)] = 32 THEN TrimEnd(SubSeq(s, 1, Len(s) - 1)) ELSE s
SplitArg(inner) == LET c == FindColon(inner, 1) IN
                   IF c = 0 THEN [t |-> "arg", arg |-> TrimEnd(inner), spec |-> <<>>]
                   ELSE [t |-> "arg", arg |-> TrimEnd(SubSeq(inner, 1, c - 1)), spec |-> SubSeq(inner, c + 1, Len(inner))]
RECURSIVE PiecesFrom(_, _)
PiecesFrom(s, i) ==
  IF i > Len(s) THEN <<>>
  ELSE IF s[i] = LB THEN
         IF i < Len(s) /\ s[i + 1] = LB THEN <<[t |-> "text", s |-> <<LB>>]>> \o PiecesFrom(s, i + 2)
         ELSE LET c == FindClose(s, i + 1) IN
              IF c = 0 THEN Bad ELSE <<SplitArg(SubSeq(s, i + 1, c - 1))>> \o PiecesFrom(s, c + 1)
  ELSE IF s[i] = RB THEN
         IF i < Len(s) /\ s[i + 1] = RB THEN <<[t |-> "text", s |-> <<RB>>]>> \o PiecesFrom(s, i + 2)
         ELSE Bad
  ELSE <<[t |-> "text", s |-> <<s[i]>>]>> \o PiecesFrom(s, i + 1)
Pieces(s) == PiecesFrom(s, 1)
ArgsOf(ps) == LET a == SelectSeq(ps, LAMBDA p : p.t = "arg") IN [k \in 1..Len(a) |-> a[k].arg]

\* ---- operational: strum's capture_format_strings ----------------------------
RECURSIVE RemovePair(_, _)
RemovePair(s, c) == IF Len(s) < 2 THEN s
                    ELSE IF s[1] = c /\ s[2] = c THEN RemovePair(SubSeq(s, 3, Len(s)), c)
                    ELSE <<s[1]>> \o RemovePair(Tail(s), c)
Stripped(s) == RemovePair(RemovePair(s, LB), RB)
\* scanner state: position i, start of the open bracket (0 = none), variables found so far
RECURSIVE ScanBraces(_, _, _, _)
ScanBraces(s, i, start, vars) ==
  IF i > Len(s) THEN [ok |-> TRUE, vars |-> vars]
  ELSE IF s[i] = LB THEN (IF start # 0 THEN [ok |-> FALSE, vars |-> vars] ELSE ScanBraces(s, i + 1, i, vars))
  ELSE IF s[i] = RB THEN
         (IF start = 0 THEN [ok |-> FALSE, vars |-> vars]
          ELSE LET inner == SubSeq(s, start + 1, i - 1)
                   c == FindColon(inner, 1)
                   nm == TrimEnd(IF c = 0 THEN inner ELSE SubSeq(inner, 1, c - 1))
               IN ScanBraces(s, i + 1, 0, Append(vars, nm)))
  ELSE ScanBraces(s, i + 1, start, vars)
StrumScan(s) == ScanBraces(Stripped(s), 1, 0, <<>>)

\* ---- interpolation -----------------------------------------------------------
\* fields: the variant's field records (ncp = name as code points); kind "tuple" binds {N} to field N+1,
\* kind "named" binds {name}; R: renderings [f |-> field number, spec |-> chars, out |-> chars] supplied by
\* the run (std's rendering of that field under that spec is the atom)
RECURSIVE DecVal(_)
DecVal(ds) == IF ds = <<>> THEN 0 ELSE DecVal(SubSeq(ds, 1, Len(ds) - 1)) * 10 + (ds[Len(ds)] - 48)
IsNumber(a) == a # <<>> /\ \A k \in 1..Len(a) : IsDigit(a[k])
FieldOf(v, arg) == IF v.kind = "tuple" THEN (IF IsNumber(arg) /\ DecVal(arg) < Len(v.fields) THEN DecVal(arg) + 1 ELSE 0)
                   ELSE LET c == {k \in 1..Len(v.fields) : v.fields[k].ncp = arg} IN
                        IF c = {} THEN 0 ELSE CHOOSE k \in c : TRUE
Rendering(R, f, spec) == LET c == {k \in 1..Len(R) : R[k].f = f /\ R[k].spec = spec} IN
                         IF c = {} THEN <<0, 0, 0>> ELSE R[CHOOSE k \in c : TRUE].out
Interp(v, lit, R) == Flat([k \in 1..Len(Pieces(lit)) |->
                       LET p == Pieces(lit)[k] IN
                       IF p.t = "text" THEN p.s ELSE Rendering(R, FieldOf(v, p.arg), p.spec)])
\* width / precision parameters inside a spec (`{text:>wd$}`, `{0:.1$}`): the identifier or index in front of each `$`
IsIdChar(c) == IsAlnum(c) \/ c = 95
RECURSIVE RunStart(_, _)
RunStart(s, j) == IF j >= 1 /\ IsIdChar(s[j]) THEN RunStart(s, j - 1) ELSE j + 1
ParamRefs(spec) == {SubSeq(spec, RunStart(spec, d - 1), d - 1) :
                      d \in {k \in 2..Len(spec) : spec[k] = 36 /\ IsIdChar(spec[k - 1])}}
ParamsOf(ps) == UNION {ParamRefs(ps[k].spec) : k \in {j \in 1..Len(ps) : ps[j].t = "arg"}}
\* a literal is an interpolating one iff it is well-formed, has at least one argument and every argument
\* (and every width / precision parameter) names a field of the variant
Interpolates(v, lit) == LET ps == Pieces(lit) IN
                        /\ ~IsBad(ps) /\ ArgsOf(ps) # <<>> /\ \A k \in 1..Len(ArgsOf(ps)) : FieldOf(v, ArgsOf(ps)[k]) # 0
                        /\ \A a \in ParamsOf(ps) : FieldOf(v, a) # 0
\* format! itself rejects a positional argument that the literal never uses, so a tuple variant's literal
\* must mention every position for "renders like format! with the fields bound by position" to mean anything
UsesAllPositions(v, lit) ==
  v.kind = "tuple" => \A k \in 1..Len(v.fields) :
                         \/ \E a \in 1..Len(ArgsOf(Pieces(lit))) : FieldOf(v, ArgsOf(Pieces(lit))[a]) = k
                         \/ \E a \in ParamsOf(Pieces(lit)) : FieldOf(v, a) = k          \* used as `k$`
\* documented domain of Display's naming: a name with braces is either a well-formed literal without
\* arguments (then it is a fixed name, printed verbatim) or an interpolating to_string literal of a
\* tuple / named variant
DisplayWF(E) == \A i \in Idx(E) : LET v == E.variants[i]  lit == CanonicalName(E, v) IN
                  (~v.dis /\ ~v.transp /\ HasBrace(lit)) =>
                     /\ ~IsBad(Pieces(lit))
                     /\ ArgsOf(Pieces(lit)) # <<>> =>
                           /\ IsSome(v.ts) /\ v.kind # "unit" /\ ~HasBrace(PrefixOf(E))
                           /\ Interpolates(v, lit) /\ UsesAllPositions(v, lit)
IsInterp(E, v) == ~v.dis /\ ~v.transp /\ IsSome(v.ts) /\ ~IsBad(Pieces(CanonicalName(E, v)))
                  /\ ArgsOf(Pieces(CanonicalName(E, v))) # <<>>
=============================================================================
