------------------------------- MODULE Domain -------------------------------
(***************************************************************************)
(* Domain pass.  Candidate definitions produced by the corpus generators    *)
(* are judged HERE, by the specification's own predicates (documented       *)
(* domain, C01's non-overlap side condition), and the few derived facts a   *)
(* driver generator needs in order to WRITE calls and choose inputs (the    *)
(* spellings, the canonical names, generated method names) are dumped.      *)
(* Nothing below is used as an oracle by the drivers: judging observed      *)
(* behaviour is the trace specifications' job.                              *)
(***************************************************************************)
EXTENDS Meta, Display, Json, IOUtils, TLC

Defs == ndJsonDeserialize(IOEnv.DEFS)

Facts(E) ==
  LET wfn == NamesWF(E) IN
  [id    |-> E.id,
   wf    |-> FromStrWF(E),
   no    |-> NonOverlap(E),
   pc    |-> PhfConsistent(E),
   wfn   |-> wfn,
   iswfn |-> IsNamesWF(E),
   iswf  |-> IntoStrWF(E),
   bf    |-> BraceFree(E),
   dwf   |-> IF wfn THEN DisplayWF(E) ELSE FALSE,
   interp |-> [i \in Idx(E) |-> IF wfn THEN IsInterp(E, E.variants[i]) ELSE FALSE],
   sp    |-> [i \in Idx(E) |-> Spellings(E, E.variants[i])],
   canon |-> [i \in Idx(E) |-> IF wfn THEN CanonicalName(E, E.variants[i]) ELSE <<>>],
   snake |-> [i \in Idx(E) |-> Snakify(E.variants[i].id)],
   aci   |-> [i \in Idx(E) |-> IsAci(E, E.variants[i])]]

ASSUME ndJsonSerialize(IOEnv.OUT, [n \in 1..Len(Defs) |-> Facts(Defs[n])])
=============================================================================
