------------------------------- MODULE FromStr -------------------------------
(***************************************************************************)
(* EnumString.                                                              *)
(*  - ParseSpec: the property as a user states it (C01, C11, C12, C18).      *)
(*  - Expand/EvalArms: the implementation's shape - the arm list the macro   *)
(*    pushes while it walks the variants, evaluated first-match-wins with    *)
(*    the fall-through; with use_phf, the key list consulted first (C16).   *)
(* A parse result is a record [k, i, s]: k = "variant" (i = declaration      *)
(* index), "capture" (default variant i holding s) or "err" (s = the input   *)
(* handed to the error constructor).                                        *)
(***************************************************************************)
EXTENDS Names

Parsable(E)  == {i \in Idx(E) : ~E.variants[i].dis /\ ~E.variants[i].def}
DefaultOf(E) == {i \in Idx(E) : ~E.variants[i].dis /\  E.variants[i].def}

\* tables derived once per definition (trace validation keeps them in a state variable)
Tables(E) == [sp    |-> [i \in Idx(E) |-> Spellings(E, E.variants[i])],
              aci   |-> [i \in Idx(E) |-> IsAci(E, E.variants[i])],
              canon |-> IF NamesWF(E) THEN [i \in Idx(E) |-> CanonicalName(E, E.variants[i])] ELSE <<>>]

MatchesT(T, i, s) == \E k \in 1..Len(T.sp[i]) :
                        IF T.aci[i] THEN EqAci(T.sp[i][k], s) ELSE T.sp[i][k] = s

ParseSpecT(E, T, s) ==
  LET c == {i \in Parsable(E) : MatchesT(T, i, s)} IN
  IF c # {} THEN [k |-> "variant", i |-> CHOOSE i \in c : \A j \in c : i <= j, s |-> <<>>]
  ELSE IF DefaultOf(E) # {} THEN [k |-> "capture", i |-> CHOOSE i \in DefaultOf(E) : TRUE, s |-> s]
  ELSE [k |-> "err", i |-> 0, s |-> s]
ParseSpec(E, s) == ParseSpecT(E, Tables(E), s)

\* C01's side condition: no input is claimed by two different parsable variants
SpellOverlap(T, i, j) == \E a \in 1..Len(T.sp[i]), b \in 1..Len(T.sp[j]) :
                            IF T.aci[i] \/ T.aci[j] THEN EqAci(T.sp[i][a], T.sp[j][b])
                                                    ELSE T.sp[i][a] = T.sp[j][b]
NonOverlapT(E, T) == \A i, j \in Parsable(E) : i < j => ~SpellOverlap(T, i, j)
NonOverlap(E) == NonOverlapT(E, Tables(E))

\* C16 on definitions whose spellings DO overlap: the plain parser is still well defined (first matching arm in
\* declaration order = the least index, which is what ParseSpec says); the phf-backed parser consults the map
\* before the guard arms, so it agrees as long as no key of a later variant (that an earlier variant has not
\* already claimed as a key) is an input an earlier variant matches through its case-insensitive guard
KeySetT(T, i) == UNION {IF T.aci[i] THEN {T.sp[i][k], Lower(T.sp[i][k]), Upper(T.sp[i][k])} ELSE {T.sp[i][k]} : k \in 1..Len(T.sp[i])}
PhfConsistentT(E, T) == \A i, j \in Parsable(E) : i < j =>
                          \A key \in KeySetT(T, j) :
                             MatchesT(T, i, key) => \E h \in Parsable(E) : h < j /\ key \in KeySetT(T, h)
PhfConsistent(E) == PhfConsistentT(E, Tables(E))

\* documented domain of EnumString: at most one default, default/disabled sane
FromStrWF(E) == /\ Cardinality(DefaultOf(E)) <= 1
                /\ NamesWF(E)

-----------------------------------------------------------------------------
\* ---- operational: the expansion loop ---------------------------------------
\* an arm is [lit, guard, vi]: `lit => V` (guard = FALSE) or
\* `s if s.eq_ignore_ascii_case(lit) => V` (guard = TRUE)
ArmsOf(E, i) == LET v == E.variants[i]  sp == Spellings(E, v) IN
                [k \in 1..Len(sp) |-> [lit |-> sp[k], guard |-> IsAci(E, v), vi |-> i]]
\* with use_phf: keys (spelling, and for case-insensitive variants its ASCII-lower and
\* ASCII-upper forms); only the guard arms stay in the match.  Dedup = "a key is emitted once,
\* first occurrence wins" (the repaired rule); without it this is the pinned code's rule.
KeysOf(E, i) == LET v == E.variants[i]  sp == Spellings(E, v) IN
                Flat([k \in 1..Len(sp) |->
                        IF IsAci(E, v)
                        THEN << [key |-> sp[k], vi |-> i], [key |-> Lower(sp[k]), vi |-> i],
                                [key |-> Upper(sp[k]), vi |-> i] >>
                        ELSE << [key |-> sp[k], vi |-> i] >>])
RECURSIVE DedupKeys(_, _)
DedupKeys(ks, seen) == IF ks = <<>> THEN <<>>
                       ELSE IF Head(ks).key \in seen THEN DedupKeys(Tail(ks), seen)
                       ELSE <<Head(ks)>> \o DedupKeys(Tail(ks), seen \cup {Head(ks).key})
GuardArmsOf(E, i) == SelectSeq(ArmsOf(E, i), LAMBDA a : a.guard)

ArmMatches(a, s) == IF a.guard THEN EqAci(a.lit, s) ELSE a.lit = s
FirstArm(arms, s) == LET c == {k \in 1..Len(arms) : ArmMatches(arms[k], s)} IN
                     IF c = {} THEN 0 ELSE arms[CHOOSE k \in c : \A j \in c : k <= j].vi
FirstKey(keys, s) == LET c == {k \in 1..Len(keys) : keys[k].key = s} IN
                     IF c = {} THEN 0 ELSE keys[CHOOSE k \in c : \A j \in c : k <= j].vi
KeysDistinct(keys) == \A a, b \in 1..Len(keys) : a # b => keys[a].key # keys[b].key

\* what the generated function returns given the finished expansion state
EvalExpansion(arms, keys, dflt, s) ==
  LET hit == IF FirstKey(keys, s) # 0 THEN FirstKey(keys, s) ELSE FirstArm(arms, s) IN
  IF hit # 0 THEN [k |-> "variant", i |-> hit, s |-> <<>>]
  ELSE IF dflt # 0 THEN [k |-> "capture", i |-> dflt, s |-> s]
  ELSE [k |-> "err", i |-> 0, s |-> s]

\* ---- strum::ParseError: what the error of a failed parse tells its reader (std feature) ----
\* Display: "Matching variant not found" (written with write!, so width/fill flags are ignored);
\* Debug: the variant's name; Error::source: none; Copy/Clone/Eq/Hash: a plain unit value
ParseErrorDisplay == <<77, 97, 116, 99, 104, 105, 110, 103, 32, 118, 97, 114, 105, 97, 110, 116, 32, 110, 111, 116, 32, 102, 111, 117, 110, 100>>
ParseErrorDebug   == <<86, 97, 114, 105, 97, 110, 116, 78, 111, 116, 70, 111, 117, 110, 100>>
ParseErrorDescr   == <<85, 110, 97, 98, 108, 101, 32, 116, 111, 32, 102, 105, 110, 100, 32, 97, 32, 118, 97, 114, 105, 97, 110, 116, 32, 111, 102, 32, 116, 104, 101, 32, 103, 105, 118, 101, 110, 32, 101, 110, 117, 109, 32, 109, 97, 116, 99, 104, 105, 110, 103, 32, 116, 104, 101, 32, 115, 116, 114, 105, 110, 103, 32, 103, 105, 118, 101, 110, 46, 32, 77, 97, 116, 99, 104, 105, 110, 103, 32, 99, 97, 110, 32, 98, 101, 32, 101, 120, 116, 101, 110, 100, 101, 100, 32, 119, 105, 116, 104, 32, 116, 104, 101, 32, 83, 101, 114, 105, 97, 108, 105, 122, 101, 32, 97, 116, 116, 114, 105, 98, 117, 116, 101, 32, 97, 110, 100, 32, 105, 115, 32, 99, 97, 115, 101, 32, 115, 101, 110, 115, 105, 116, 105, 118, 101, 46>>
=============================================================================
