------------------------------ MODULE MC_Names ------------------------------
(***************************************************************************)
(* (A) for C03 (and the naming half of C02/C07): the name every            *)
(* string-producing derive emits for a variant, computed the way the code  *)
(* computes it (to_string, else max_by_key over serialize - which keeps    *)
(* the LAST maximum -, else the cased identifier; then the prefix), equals  *)
(* the canonical name of the specification, for every derive, on every      *)
(* definition of the universe.                                              *)
(***************************************************************************)
EXTENDS Names, TLC
CONSTANTS Size

a == 97  b == 98  c == 99  d == 100  eacute == 233  T_ == 84  slash == 47
Lits == {<<a>>, <<b, c>>, <<eacute>>, <<d, d, d>>} \cup (IF Size = 1 THEN {} ELSE {<<eacute, eacute>>})
SerCfgs == {<<>>} \cup {<<p>> : p \in Lits}
           \cup {pq \in {<<p, q>> : p \in Lits, q \in Lits} : pq[1] # pq[2]}
           \cup {pqr \in {<<p, q, r>> : p \in Lits, q \in Lits, r \in Lits} :
                    pqr[1] # pqr[2] /\ pqr[1] # pqr[3] /\ pqr[2] # pqr[3]}
TsCfgs == {<<>>, << <<T_>> >>}
Idents == IF Size = 1 THEN {<<65, 98>>, <<72, 84, 84, 80, 83, 118>>}                    \* Ab, HTTPSv
          ELSE {<<65, 98>>, <<72, 84, 84, 80, 83, 118>>, <<65, 98, 49, 50, 67, 100>>, <<97, 95, 98>>}
StylesU == {"none"} \cup (IF Size = 1 THEN {"snake_case", "UPPERCASE", "camelCase"} ELSE Styles)
Prefixes == {<<>>, << <<>> >>, << <<112, slash>> >>, << <<eacute>> >>}
\* the derives that print names, and whether they honour prefix / case style (all do)
Derives == {"Display", "ToString", "AsRefStr", "AsStaticStr", "IntoStaticStr_val", "IntoStaticStr_ref",
            "into_str", "VariantNames"}

Defs == {[style |-> st, prefix |-> p, aci |-> FALSE,
          variants |-> << [id |-> i, ser |-> se, ts |-> t, dis |-> FALSE, def |-> FALSE, transp |-> FALSE, aci |-> 2] >>] :
            st \in StylesU, p \in Prefixes, i \in Idents, se \in SerCfgs, t \in TsCfgs}

VARIABLES E, derive, pc, out
vars == <<E, derive, pc, out>>
v == E.variants[1]

Init == /\ E \in {D \in Defs : NamesWF(D)} /\ derive \in Derives /\ pc = "pick" /\ out = <<>>
\* get_preferred_name, step by step
PickToString  == pc = "pick" /\ IsSome(v.ts) /\ out' = The(v.ts) /\ pc' = "prefix" /\ UNCHANGED <<E, derive>>
PickSerialize == pc = "pick" /\ ~IsSome(v.ts) /\ v.ser # <<>> /\ out' = v.ser[LastLongest(v.ser)]
                 /\ pc' = "prefix" /\ UNCHANGED <<E, derive>>
PickIdent     == pc = "pick" /\ ~IsSome(v.ts) /\ v.ser = <<>> /\ out' = ConvertImpl(E.style, v.id)
                 /\ pc' = "prefix" /\ UNCHANGED <<E, derive>>
AddPrefix     == pc = "prefix" /\ out' = (IF IsSome(E.prefix) THEN The(E.prefix) \o out ELSE out)
                 /\ pc' = "emit" /\ UNCHANGED <<E, derive>>
EmitArm       == pc = "emit" /\ pc' = "done" /\ UNCHANGED <<E, derive, out>>
Next == PickToString \/ PickSerialize \/ PickIdent \/ AddPrefix \/ EmitArm
Spec == Init /\ [][Next]_vars

DerivesAgree == pc = "done" => out = CanonicalName(E, v)
CanonicalIsSpelling == pc = "done" =>
    \E n \in 1..Len(Spellings(E, v)) : CanonicalName(E, v) = PrefixOf(E) \o Spellings(E, v)[n]
LastVsLongest == BaseNameImpl(E, v) = BaseName(E, v)
PrefixOnlyOnPrinting == pc = "done" => /\ IsPrefixOf(PrefixOf(E), out)
                                       /\ Len(out) = Len(PrefixOf(E)) + Len(BaseName(E, v))
=============================================================================
