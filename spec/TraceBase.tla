------------------------------ MODULE TraceBase ------------------------------
(***************************************************************************)
(* Common part of every trace specification: the recorded events, the line  *)
(* counter, the acceptance condition.  A trace specification never stops at *)
(* a mismatch: it prints <<"MISMATCH", line, ...>> and goes on, so that one *)
(* run reports every disagreement (each is then either a listed known       *)
(* finding or a VIOLATION).  Acceptance = every line consumed.              *)
(***************************************************************************)
EXTENDS Naturals, Sequences, TLC, Json, IOUtils

Rec == ndJsonDeserialize(IOEnv.TRACE)

\* report and continue
\* (a one-line marker the orchestrator parses, then the detail pretty-printed by TLC, then an end marker)
Mismatch(line, what, detail) == /\ PrintT("MISMATCH@" \o ToString(line) \o "@" \o what)
                                /\ PrintT(detail)
                                /\ PrintT("ENDMISMATCH")
Require(cond, line, what, detail) == IF cond THEN TRUE ELSE Mismatch(line, what, detail)

\* Behaviour the specification describes but NO listed property demands (the wording of an error message, the Debug
\* rendering of a generated type): a deviation is reported as an observation, never as a violation of a property
Note(line, what, detail) == /\ PrintT("NOTE@" \o ToString(line) \o "@" \o what)
                            /\ PrintT(detail)
                            /\ PrintT("ENDNOTE")
Observe(cond, line, what, detail) == IF cond THEN TRUE ELSE Note(line, what, detail)

Accepted == TLCGet("stats").diameter - 1 = Len(Rec)
=============================================================================
