----------------------------- MODULE Trace_Iter -----------------------------
(***************************************************************************)
(* Trace specification for EnumIter / EnumCount / VariantNames /            *)
(* VariantArray (C04, C05, C08): every recorded call on a real iterator     *)
(* must be a step of EnumIter.tla's actions on the handle it names, and the *)
(* projected state logged with it (len, size_hint, what clone().collect()   *)
(* yields) must be the abstract state after the step.                       *)
(***************************************************************************)
EXTENDS EnumIter, Names, TraceBase

VARIABLES l, E, L, lost       \* L = IterList(E); lost = handles whose state is unknown after a reported mismatch
vars == <<l, E, L, lost, N, its>>

Init == l = 1 /\ E = [id |-> 0] /\ L = <<>> /\ lost = {} /\ N = 0 /\ its = <<>>

IsEvent(op) == l <= Len(Rec) /\ Rec[l].op = op /\ l' = l + 1
ItCall(c) == IsEvent("it") /\ Rec[l].call = c

LoadDef == /\ IsEvent("def")
           /\ E' = Rec[l].d /\ L' = IterList(Rec[l].d) /\ N' = Count(Rec[l].d)
           /\ its' = <<>> /\ lost' = {}

\* position (1..N) of a yielded declaration index; 0 = None; N + 1 = not an item of the list at all
PosOf(res) == IF res = 0 THEN 0
              ELSE LET c == {p \in 1..N : L[p] = res} IN IF c = {} THEN N + 1 ELSE CHOOSE p \in c : TRUE
\* usize arguments beyond N + 1 (usize::MAX, usize::MAX - 1) are logged as `big` and act like N + 1
Arg(e) == IF e.big THEN N + 1 ELSE e.n
\* the projection logged with a call must be the abstract state st
ObsOK(e, st) == /\ ~e.panic /\ e.len = st.rem /\ e.lo = st.rem /\ e.hi = st.rem
                /\ e.rest = [k \in 1..st.rem |-> L[st.f + k]]
Report(e, what, exp) == Mismatch(l, what, [def |-> E.id, prof |-> e.prof, call |-> e.call, handle |-> e.h, from |-> e.from,
                                           arg |-> IF e.big THEN e.bigk ELSE ToString(e.n),
                                           observed |-> [res |-> e.res, len |-> e.len, lo |-> e.lo, hi |-> e.hi, rest |-> e.rest, panic |-> e.panic],
                                           expected |-> exp])

TNew == /\ ItCall("new")
        /\ LET e == Rec[l] IN
           /\ Require(e.def = E.id, l, "it: event is about another definition", e.def)
           /\ IF ObsOK(e, Fresh(N))
              THEN its' = (e.h :> Fresh(N)) @@ its /\ lost' = lost \ {e.h}
              ELSE Report(e, "iter(): fresh iterator", Fresh(N)) /\ its' = (e.h :> Fresh(N)) @@ its /\ lost' = lost \cup {e.h}
        /\ UNCHANGED <<E, L, N>>

\* one call; `from` >= 0: the state of handle `from` is first cloned into handle h (a tree edge of the
\* exhaustive exploration), then the call is made on h
Step(call, F(_, _)) ==
  /\ ItCall(call)
  /\ LET e == Rec[l]
         src == IF e.from >= 0 THEN e.from ELSE e.h IN
     IF src \in lost \/ src \notin DOMAIN its
     THEN its' = its /\ lost' = lost \cup {e.h}
     ELSE LET x == F(its[src], Arg(e)) IN
          IF PosOf(e.res) = x.res /\ ObsOK(e, x.st)
          THEN its' = (e.h :> x.st) @@ its /\ lost' = lost \ {e.h}
          ELSE Report(e, call, [res |-> IF x.res = 0 THEN 0 ELSE L[x.res], st |-> x.st]) /\ its' = its /\ lost' = lost \cup {e.h}
  /\ UNCHANGED <<E, L, N>>
TNext     == Step("next", LAMBDA st, n : ItNext(st))
TNextBack == Step("next_back", LAMBDA st, n : ItNextBack(st))
TNth      == Step("nth", ItNth)
TNthBack  == Step("nth_back", ItNthBack)

TClone == /\ ItCall("clone")
          /\ LET e == Rec[l] IN
             IF e.from \in lost \/ e.from \notin DOMAIN its THEN its' = its /\ lost' = lost \cup {e.h}
             ELSE IF ObsOK(e, its[e.from]) THEN its' = (e.h :> its[e.from]) @@ its /\ lost' = lost \ {e.h}
             ELSE Report(e, "clone", its[e.from]) /\ its' = its /\ lost' = lost \cup {e.h}
          /\ UNCHANGED <<E, L, N>>
TDrop == /\ ItCall("drop")
         /\ its' = [x \in DOMAIN its \ {Rec[l].h} |-> its[x]] /\ lost' = lost \ {Rec[l].h}
         /\ UNCHANGED <<E, L, N>>

\* adapters built on next/nth, observed on a clone (the handle does not move)
RECURSIVE EveryKth(_, _)
EveryKth(s, k) == IF s = <<>> THEN <<>> ELSE <<s[1]>> \o (IF Len(s) <= k THEN <<>> ELSE EveryKth(SubSeq(s, k + 1, Len(s)), k))
Reverse(s) == [i \in 1..Len(s) |-> s[Len(s) - i + 1]]
\* decimal rendering of a small natural as code points; Debug of the iterator is `<Enum>Iter { len: <remaining> }`
RECURSIVE DecStr(_)
DecStr(n) == IF n < 10 THEN <<48 + n>> ELSE DecStr(n \div 10) \o <<48 + (n % 10)>>
DebugOf(rem) == E.namecp \o <<73, 116, 101, 114, 32, 123, 32, 108, 101, 110, 58, 32>> \o DecStr(rem) \o <<32, 125>>
TObs == /\ IsEvent("itobs")
        /\ LET e == Rec[l] IN
           IF e.h \in lost \/ e.h \notin DOMAIN its THEN TRUE
           ELSE LET rem == [k \in 1..its[e.h].rem |-> L[its[e.h].f + k]]
                    n == Arg(e)
                    want == CASE e.call = "skip" -> IF n >= Len(rem) THEN <<>> ELSE SubSeq(rem, n + 1, Len(rem))
                              [] e.call = "take" -> IF n >= Len(rem) THEN rem ELSE SubSeq(rem, 1, n)
                              [] e.call = "rev" -> Reverse(rem)
                              [] e.call = "step_by" -> EveryKth(rem, n)
                              [] e.call = "debug" -> DebugOf(Len(rem))
                              \* consumers every Iterator has: provided or specialised, they describe the same remaining list
                              [] e.call = "count" -> <<Len(rem)>>
                              [] e.call = "last" -> IF rem = <<>> THEN <<>> ELSE <<rem[Len(rem)]>>
                              [] e.call = "fold" -> rem
                              [] e.call = "rfold" -> Reverse(rem)
                    detail == [def |-> E.id, prof |-> e.prof, handle |-> e.h, arg |-> IF e.big THEN "big" ELSE ToString(e.n),
                               observed |-> e.items, panic |-> e.panic, expected |-> want]
                \* the adapters follow from the iterator contract (C05); the Debug rendering is demanded by no property
                IN IF e.call = "debug" THEN Observe(~e.panic /\ e.items = want, l, "Debug of the iterator", detail)
                   ELSE Require(~e.panic /\ e.items = want, l, "adapter " \o e.call, detail)
        /\ UNCHANGED <<E, L, N, its, lost>>

\* C04: the whole list, forwards and backwards, payloads, COUNT
TList == /\ IsEvent("itlist")
         /\ LET e == Rec[l] IN
            /\ Require(e.def = E.id, l, "itlist: event is about another definition", e.def)
            /\ Require(e.fwd = L /\ e.back = Reverse(L) /\ e.count = N /\ e.len0 = N /\ \A k \in 1..Len(e.pd) : e.pd[k],
                       l, "itlist", [def |-> E.id, prof |-> e.prof, fwd |-> e.fwd, back |-> e.back, count |-> e.count,
                                     len0 |-> e.len0, payload_default |-> e.pd, expected |-> L])
         /\ UNCHANGED <<E, L, N, its, lost>>

\* C08: COUNT, VariantNames, VariantArray, iter describe the same variant list
AllIdx == [i \in 1..Len(E.variants) |-> i]
TLists == /\ IsEvent("lists")
          /\ LET e == Rec[l]
                 canon == [i \in 1..Len(E.variants) |-> CanonicalName(E, E.variants[i])] IN
             /\ Require(e.def = E.id, l, "lists: event is about another definition", e.def)
             /\ Require(/\ e.count = N /\ e.iter_count = N /\ e.iter = L
                        /\ e.names = canon
                        \* an enum with payloads cannot derive VariantArray: the event then carries no array
                        /\ (e.noarr \/ e.array = AllIdx)
                        /\ (N = Len(E.variants) => (Len(e.names) = N /\ (e.noarr \/ (Len(e.array) = N /\ e.array = e.iter)))),
                        l, "lists", [def |-> E.id, count |-> e.count, iter |-> e.iter, names |-> e.names, array |-> e.array,
                                     expected_iter |-> L, expected_names |-> canon])
          /\ UNCHANGED <<E, L, N, its, lost>>

Panicked == /\ IsEvent("panic")
            /\ Mismatch(l, "panic in generated code", [def |-> Rec[l].def, variant |-> Rec[l].i, msg |-> Rec[l].msg])
            /\ UNCHANGED <<E, L, N, its, lost>>

TraceNext == LoadDef \/ TNew \/ TNext \/ TNextBack \/ TNth \/ TNthBack \/ TClone \/ TDrop \/ TObs \/ TList \/ TLists \/ Panicked
Spec == Init /\ [][TraceNext]_vars
=============================================================================
