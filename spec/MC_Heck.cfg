SPECIFICATION Spec
CONSTANT MaxLen = 5
CONSTANT Latin1 = FALSE
INVARIANT ScannerEqualsRule
INVARIANT WordsPartition
INVARIANT StyleShapes
INVARIANT SnakifyShape
CHECK_DEADLOCK FALSE
