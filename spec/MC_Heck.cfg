SPECIFICATION Spec
CONSTANT MaxLen = 5
INVARIANT ScannerEqualsRule
INVARIANT WordsPartition
INVARIANT StyleShapes
INVARIANT SnakifyShape
CHECK_DEADLOCK FALSE
