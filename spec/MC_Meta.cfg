SPECIFICATION Spec
CONSTANT MaxV = 2
INVARIANT MessageArms
INVARIANT DetailArms
INVARIANT DocArms
INVARIANT MatchesCompile
INVARIANT PropBuckets
CHECK_DEADLOCK FALSE
