------------------------------- MODULE MC_Disc -------------------------------
(***************************************************************************)
(* (A) for C09: the EnumDiscriminants loop copies, per declared variant,    *)
(* the identifier and the `= expr` (never the fields), in order; the three  *)
(* conversions share one arm list.  On every definition of the universe the *)
(* generated enum has the same names, order and rustc discriminants.        *)
(***************************************************************************)
EXTENDS FromRepr, TLC
CONSTANTS MaxV
Explicit == {<<>>, <<-2>>, <<0>>, <<3>>}
VariantsU == [disc : Explicit, dis : {FALSE}, kind : {"unit", "tuple", "named"}]
VARIABLES E, i, dvariants, arms, pc
vars == <<E, i, dvariants, arms, pc>>
Init == /\ \E n \in 1..MaxV : \E vs \in [1..n -> VariantsU] : E = [variants |-> vs] /\ DiscrDistinct([variants |-> vs])
        /\ i = 1 /\ dvariants = <<>> /\ arms = <<>> /\ pc = "loop"
CopyVariant == /\ pc = "loop" /\ i <= Len(E.variants)
               /\ dvariants' = Append(dvariants, [name |-> i, disc |-> E.variants[i].disc, dis |-> FALSE])
               /\ arms' = Append(arms, [pat |-> i, out |-> i])                \* `E::V {..} => D::V`
               /\ i' = i + 1 /\ UNCHANGED <<E, pc>>
Finish == pc = "loop" /\ i > Len(E.variants) /\ pc' = "done" /\ UNCHANGED <<E, i, dvariants, arms>>
Next == CopyVariant \/ Finish
Spec == Init /\ [][Next]_vars
D == [variants |-> dvariants]
Done == pc = "done"
MirrorsNames == Done => Len(dvariants) = Len(E.variants) /\ \A k \in 1..Len(dvariants) : dvariants[k].name = k
MirrorsDiscriminants == Done => \A k \in 1..Len(dvariants) : Discr(D, k) = Discr(E, k)
ConversionsAgree == Done => \A k \in 1..Len(E.variants) :
                       \E a \in 1..Len(arms) : arms[a].pat = k /\ arms[a].out = k /\ Discr(D, arms[a].out) = Discr(E, k)
=============================================================================
