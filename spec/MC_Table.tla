------------------------------ MODULE MC_Table ------------------------------
(***************************************************************************)
(* (A) for C10: the table as the generated struct implements it - one named *)
(* field per enabled variant, Index/IndexMut as a match from variant to      *)
(* field - run as a state machine over every write/read history up to        *)
(* MaxOps over every enabled mask of up to MaxV variants and Vals values,    *)
(* against a reference map (hist) kept next to it.                           *)
(***************************************************************************)
EXTENDS Table, TLC
CONSTANTS MaxV, MaxOps, Vals

Masks(n) == {m \in [1..n -> BOOLEAN] : \E i \in 1..n : ~m[i]}          \* at least one enabled variant
VARIABLES E, EN, fields, ref, ops, lastRead, panicked
vars == <<E, EN, fields, ref, ops, lastRead, panicked>>
\* fields: the struct (position -> value); ref: reference map declaration index -> value

Init == /\ \E n \in 1..MaxV : \E m \in Masks(n) : E = [variants |-> [i \in 1..n |-> [dis |-> m[i]]]]
        /\ EN = EnabledList(E)
        /\ \E x \in Vals : fields = TFilled(Len(EN), x) /\ ref = [i \in {EN[p] : p \in 1..Len(EN)} |-> x]
        /\ ops = 0 /\ lastRead = [k |-> 0, v |-> 0] /\ panicked = FALSE
PosOfKey(k) == CHOOSE p \in 1..Len(EN) : EN[p] = k
\* IndexMut: `E::V => &mut self._v`
Write == \E k \in 1..Len(E.variants), v \in Vals :
            /\ ops < MaxOps /\ ~panicked /\ ~E.variants[k].dis
            /\ fields' = TWrite(fields, PosOfKey(k), v) /\ ref' = [ref EXCEPT ![k] = v]
            /\ ops' = ops + 1 /\ UNCHANGED <<E, EN, lastRead, panicked>>
Read == \E k \in 1..Len(E.variants) :
            /\ ops < MaxOps /\ ~panicked /\ ~E.variants[k].dis
            /\ lastRead' = [k |-> k, v |-> TRead(fields, PosOfKey(k))]
            /\ ops' = ops + 1 /\ UNCHANGED <<E, EN, fields, ref, panicked>>
\* `E::Disabled => panic!(..)`
IndexDisabled == \E k \in 1..Len(E.variants) :
            /\ ops < MaxOps /\ ~panicked /\ E.variants[k].dis
            /\ panicked' = TRUE /\ ops' = ops + 1 /\ UNCHANGED <<E, EN, fields, ref, lastRead>>
Transform == /\ ops < MaxOps /\ ~panicked
             /\ fields' = [p \in 1..Len(EN) |-> TransformF(EN[p], fields[p]) % 3]
             /\ ref' = [k \in DOMAIN ref |-> TransformF(k, ref[k]) % 3]
             /\ ops' = ops + 1 /\ UNCHANGED <<E, EN, lastRead, panicked>>
Next == Write \/ Read \/ IndexDisabled \/ Transform
Spec == Init /\ [][Next]_vars

\* total map: exactly one slot per enabled variant, and it holds the value last written / constructed
TotalMap == DOMAIN ref = {i \in 1..Len(E.variants) : ~E.variants[i].dis} /\ Len(fields) = Cardinality(DOMAIN ref)
AgreesWithRef == \A k \in DOMAIN ref : fields[PosOfKey(k)] = ref[k]
ReadYourWrite == lastRead.k # 0 /\ ~panicked => (lastRead.k \in DOMAIN ref)
\* frame condition: a write to k changes no other slot
Frame == [][\A p \in 1..Len(fields) : (fields'[p] # fields[p]) =>
              (\E k \in DOMAIN ref : PosOfKey(k) = p /\ ref'[k] # ref[k])]_vars
PanicOnlyOnDisabled == panicked => \E k \in 1..Len(E.variants) : E.variants[k].dis
=============================================================================
