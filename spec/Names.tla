-------------------------------- MODULE Names --------------------------------
(***************************************************************************)
(* What a variant is called.  An enum definition E is a record             *)
(*   [style, prefix, aci, phf, variants, ...]                               *)
(* and a variant v a record                                                 *)
(*   [id, kind, ser, ts, dis, def, transp, aci, ...]                        *)
(* (strings = sequences of code points, optional values = sequences of      *)
(* length 0/1, v.aci: 0 = `= false`, 1 = set, 2 = absent).  Definitions     *)
(* reach the specification either from a model-checking universe or from    *)
(* the JSON of a generated program; only the fields used here need exist.   *)
(***************************************************************************)
EXTENDS Heck, FiniteSets

NV(E) == Len(E.variants)
Idx(E) == 1..NV(E)

\* the identifier under the enum's serialize_all style
Cased(E, v) == Convert(E.style, v.id)

\* C01: the spellings of a variant: every serialize literal, then the to_string literal;
\* the cased identifier only if there is none
Spellings(E, v) == LET xs == v.ser \o v.ts IN IF xs = <<>> THEN <<Cased(E, v)>> ELSE xs

\* C03: the canonical name
MaxByteLen(xs) == CHOOSE m \in {ByteLen(xs[k]) : k \in 1..Len(xs)} :
                     \A k \in 1..Len(xs) : ByteLen(xs[k]) <= m
Longest(xs)  == CHOOSE k \in 1..Len(xs) : \A j \in 1..Len(xs) : j # k => ByteLen(xs[j]) < ByteLen(xs[k])
UniqueLongest(xs) == Cardinality({k \in 1..Len(xs) : ByteLen(xs[k]) = MaxByteLen(xs)}) = 1
\* the code's choice (Iterator::max_by_key keeps the LAST maximum); equals Longest when unique
LastLongest(xs) == CHOOSE k \in 1..Len(xs) : /\ ByteLen(xs[k]) = MaxByteLen(xs)
                                              /\ \A j \in (k + 1)..Len(xs) : ByteLen(xs[j]) < ByteLen(xs[k])
BaseName(E, v) == IF IsSome(v.ts) THEN The(v.ts)
                  ELSE IF v.ser # <<>> THEN v.ser[Longest(v.ser)]
                  ELSE Cased(E, v)
BaseNameImpl(E, v) == IF IsSome(v.ts) THEN The(v.ts)
                      ELSE IF v.ser # <<>> THEN v.ser[LastLongest(v.ser)]
                      ELSE Cased(E, v)
PrefixOf(E) == IF IsSome(E.prefix) THEN The(E.prefix) ELSE <<>>
CanonicalName(E, v)     == PrefixOf(E) \o BaseName(E, v)
CanonicalNameImpl(E, v) == PrefixOf(E) \o BaseNameImpl(E, v)

\* C12: who is matched case-insensitively
IsAci(E, v) == IF v.aci = 2 THEN E.aci ELSE v.aci = 1

\* does the name contain a `{` (placeholder or escaped brace)?  such names are outside C02/C03
HasBrace(s) == \E i \in 1..Len(s) : s[i] = 123 \/ s[i] = 125

\* documented domain of the naming attributes
\* ("longest" is measured in bytes by the code; definitions where the longest literal by bytes is not
\* also the unique longest by characters are kept out of the domain, the property does not say which)
MaxLen(xs) == CHOOSE m \in {Len(xs[k]) : k \in 1..Len(xs)} : \A k \in 1..Len(xs) : Len(xs[k]) <= m
UniqueLongestChars(xs) == Cardinality({k \in 1..Len(xs) : Len(xs[k]) = MaxLen(xs)}) = 1
\* an identifier that is re-cased must lie inside the case table the model knows (Chars: ASCII + Latin-1 letters)
Recased(E, v) == E.style # "none" /\ v.ser = <<>> /\ ~IsSome(v.ts)
NamesWF(E) == \A i \in Idx(E) : LET v == E.variants[i] IN
                 /\ (~IsSome(v.ts) /\ v.ser # <<>>) =>
                       /\ UniqueLongest(v.ser) /\ UniqueLongestChars(v.ser)
                       /\ Len(v.ser[Longest(v.ser)]) = MaxLen(v.ser)
                 /\ Recased(E, v) => IdentInTable(v.id)
\* documented: const_into_str is not supported in combination with transparent
IntoStrWF(E) == ~(E.cis /\ \E i \in Idx(E) : E.variants[i].transp)
\* names containing braces are format strings (C17), not fixed names
BraceFree(E) == \A i \in Idx(E) : LET v == E.variants[i] IN
                   /\ \A k \in 1..Len(v.ser) : ~HasBrace(v.ser[k])
                   /\ IsSome(v.ts) => ~HasBrace(The(v.ts))
=============================================================================
