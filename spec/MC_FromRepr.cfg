SPECIFICATION Spec
CONSTANT MaxV = 4
CONSTANT DefineAll = TRUE
INVARIANT ExpansionIsSpec
INVARIANT RoundTrip
INVARIANT NeverDisabled
CHECK_DEADLOCK FALSE
