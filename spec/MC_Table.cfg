SPECIFICATION Spec
CONSTANT MaxV = 4
CONSTANT MaxOps = 3
CONSTANT Vals = {0, 1, 2}
INVARIANT TotalMap
INVARIANT AgreesWithRef
INVARIANT ReadYourWrite
INVARIANT PanicOnlyOnDisabled
PROPERTY Frame
CHECK_DEADLOCK FALSE
