------------------------------- MODULE ApaIter -------------------------------
(***************************************************************************)
(* Unbounded check (Apalache, symbolic N and symbolic arguments) of the      *)
(* abstract iterator contract of EnumIter.tla for ONE handle: the window     *)
(* [f+1 .. f+rem] stays inside 1..N, only narrows, what is yielded lies in   *)
(* the window it leaves, and exhaustion is permanent.  IndInv is inductive:  *)
(*   Init => IndInv        (apalache-mc check --init=Init --inv=IndInv --length=0)        *)
(*   IndInv /\ Next => IndInv'   (--init=IndInit --inv=IndInv --length=1)                  *)
(* The transition functions are the ones of EnumIter.tla, restated over      *)
(* integers (Apalache needs type annotations, which TLC-oriented modules do   *)
(* not carry).                                                               *)
(***************************************************************************)
EXTENDS Integers

VARIABLES
  \* @type: Int;
  N,
  \* @type: Int;
  f,
  \* @type: Int;
  rem,
  \* @type: Int;
  res,
  \* @type: Int;
  oldf,
  \* @type: Int;
  oldrem

Init == /\ N \in Nat /\ f = 0 /\ rem = N /\ res = 0 /\ oldf = 0 /\ oldrem = N

Nth(n) == /\ oldf' = f /\ oldrem' = rem /\ N' = N
          /\ IF n < rem THEN res' = f + n + 1 /\ f' = f + n + 1 /\ rem' = rem - n - 1
                        ELSE res' = 0 /\ f' = f /\ rem' = 0
NthBack(n) == /\ oldf' = f /\ oldrem' = rem /\ N' = N
              /\ IF n < rem THEN res' = f + rem - n /\ f' = f /\ rem' = rem - n - 1
                            ELSE res' = 0 /\ f' = f /\ rem' = 0
Next == \E n \in Nat : Nth(n) \/ NthBack(n)

\* inductive invariant
IndInv == /\ N >= 0 /\ f >= 0 /\ rem >= 0 /\ f + rem <= N
          /\ oldf >= 0 /\ oldrem >= 0 /\ oldf + oldrem <= N
          /\ f >= oldf /\ f + rem <= oldf + oldrem                      \* the window only narrows
          /\ (res # 0 => (res > oldf /\ res <= oldf + oldrem /\ (res <= f \/ res > f + rem)))   \* yielded item was in the old window, not in the new
          /\ (res = 0 => (rem = 0 \/ (f = oldf /\ rem = oldrem)))        \* None only when the call exhausted the iterator (or no call yet)
          /\ (oldrem = 0 => rem = 0)                                     \* fused
IndInit == N \in Int /\ f \in Int /\ rem \in Int /\ res \in Int /\ oldf \in Int /\ oldrem \in Int /\ IndInv
=============================================================================
