----------------------------- MODULE MC_Display -----------------------------
(***************************************************************************)
(* (A) for C17/C11: (1) strum's brace scanner, run as a state machine over   *)
(* every literal up to LitLen over { '{', '}', 'x', '0', ':', '>' }, finds   *)
(* exactly the arguments the format-string grammar finds whenever the        *)
(* literal is well-formed; (2) the algebra of FmtStr on every name up to 4   *)
(* characters (incl. a multi-byte one) under every spec of the grid.         *)
(***************************************************************************)
EXTENDS Display, TLC
CONSTANTS LitLen, MaxW

Alphabet == {LB, RB, 120, 48, Colon, 62}
RECURSIVE StrsUpTo(_)
StrsUpTo(n) == IF n = 0 THEN {<<>>}
               ELSE LET P == StrsUpTo(n - 1) IN
                    P \cup {Append(p, c) : p \in {q \in P : Len(q) = n - 1}, c \in Alphabet}
Lits == StrsUpTo(LitLen)
Names4 == {<<>>, <<97>>, <<97, 98>>, <<233, 98, 99>>, <<97, 98, 99, 100>>}
Specs == [fill : {32, 42, 233}, align : {"<", "^", ">", "n"}, width : 0..MaxW, prec : -1..4]

VARIABLES mode, lit, s, i, start, vars, ok, pc, name, sp
vv == <<mode, lit, s, i, start, vars, ok, pc, name, sp>>

InitScan == /\ mode = "scan" /\ lit \in Lits /\ s = lit /\ i = 1 /\ start = 0 /\ vars = <<>> /\ ok = TRUE /\ pc = "strip"
            /\ name = <<>> /\ sp = [fill |-> 32, align |-> "n", width |-> 0, prec |-> -1]
InitFmt == /\ mode = "fmt" /\ name \in Names4 /\ sp \in Specs /\ pc = "done"
           /\ lit = <<>> /\ s = <<>> /\ i = 1 /\ start = 0 /\ vars = <<>> /\ ok = TRUE
Init == InitScan \/ InitFmt

Keep == UNCHANGED <<mode, lit, name, sp>>
StripEscapes == pc = "strip" /\ s' = Stripped(lit) /\ pc' = "scan" /\ UNCHANGED <<i, start, vars, ok>> /\ Keep
OpenBrace  == /\ pc = "scan" /\ i <= Len(s) /\ s[i] = LB
              /\ IF start # 0 THEN ok' = FALSE /\ pc' = "done" /\ UNCHANGED <<i, start>>
                              ELSE start' = i /\ i' = i + 1 /\ UNCHANGED <<ok, pc>>
              /\ UNCHANGED <<s, vars>> /\ Keep
CloseBrace == /\ pc = "scan" /\ i <= Len(s) /\ s[i] = RB
              /\ IF start = 0 THEN ok' = FALSE /\ pc' = "done" /\ UNCHANGED <<i, start, vars>>
                 ELSE LET inner == SubSeq(s, start + 1, i - 1)  c == FindColon(inner, 1) IN
                      /\ vars' = Append(vars, TrimEnd(IF c = 0 THEN inner ELSE SubSeq(inner, 1, c - 1)))
                      /\ start' = 0 /\ i' = i + 1 /\ UNCHANGED <<ok, pc>>
              /\ UNCHANGED s /\ Keep
OtherChar  == /\ pc = "scan" /\ i <= Len(s) /\ s[i] # LB /\ s[i] # RB
              /\ i' = i + 1 /\ UNCHANGED <<s, start, vars, ok, pc>> /\ Keep
EndOfLiteral == pc = "scan" /\ i > Len(s) /\ pc' = "done" /\ UNCHANGED <<s, i, start, vars, ok>> /\ Keep
Next == StripEscapes \/ OpenBrace \/ CloseBrace \/ OtherChar \/ EndOfLiteral
Spec == Init /\ [][Next]_vv

ScanDone == mode = "scan" /\ pc = "done"
\* the state machine is the recursive transcription
MachineIsScan == ScanDone => (ok = StrumScan(lit).ok /\ (ok => vars = StrumScan(lit).vars))
\* on every well-formed literal strum finds exactly the grammar's arguments
ScannerFindsGrammarArgs == ScanDone /\ ~IsBad(Pieces(lit)) => ok /\ vars = ArgsOf(Pieces(lit))
\* a literal without braces has no arguments and is printed verbatim
NoBracesNoArgs == ScanDone /\ ~HasBrace(lit) => ok /\ vars = <<>> /\ Flat([n \in 1..Len(Pieces(lit)) |-> Pieces(lit)[n].s]) = lit

\* FmtStr algebra
FmtLen == mode = "fmt" => LET r == FmtStr(name, sp)
                              t == IF sp.prec >= 0 THEN Take(name, sp.prec) ELSE name IN
            /\ Len(r) = (IF sp.width > Len(t) THEN sp.width ELSE Len(t))
            /\ SelectSeq(r, LAMBDA c : c # sp.fill) = SelectSeq(t, LAMBDA c : c # sp.fill)
            /\ (sp.width <= Len(t) => r = t)
            /\ (sp.align \in {"<", "n"} => IsPrefixOf(t, r))
            /\ (sp.align = ">" => SubSeq(r, Len(r) - Len(t) + 1, Len(r)) = t)
=============================================================================
