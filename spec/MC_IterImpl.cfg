SPECIFICATION Spec
CONSTANT W = 4
CONSTANT MaxN = 6
CONSTANT Mode = "release"
CONSTANT Saturating = TRUE
INVARIANT NoPanic
INVARIANT ResultRefines
INVARIANT LenRefines
INVARIANT WindowRefines
INVARIANT CursorsBounded
CHECK_DEADLOCK FALSE
