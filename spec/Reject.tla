------------------------------- MODULE Reject -------------------------------
(***************************************************************************)
(* C20: input outside a derive's documented domain.  This module states,    *)
(* per rejection rule, which derives it applies to (a derive that does not  *)
(* consume a construct is not required to reject its misuse), enumerates    *)
(* the instances (rule x derive x position x shape), and gives the          *)
(* acceptance condition for an observed compilation outcome.  It also       *)
(* models the attribute front-end (occurrence tracking per keyword across   *)
(* and within attributes) as a state machine, checked in MC_Reject.         *)
(***************************************************************************)
EXTENDS Naturals, Sequences, FiniteSets

\* the serialize_all values strum accepts (Heck.tla: AcceptedStyles; repeated here because this module does not need the conversion itself;
\* MC_Reject checks the two lists equal)
KnownStyles == {"camelCase", "PascalCase", "kebab-case", "snake_case", "SCREAMING_SNAKE_CASE", "SCREAMING-KEBAB-CASE", "lowercase", "UPPERCASE",
                "title_case", "mixed_case", "Train-Case", "camel_case", "snek_case", "kebab_case", "shouty_snake_case", "shouty_snek_case"}
\* near misses of them: the other separator, another capitalisation, surrounding blanks, no separator
NearMissStyles == {"Snake_Case", "", "kebabcase", "snake-case", "Train_Case", "SCREAMING_KEBAB_CASE", "SCREAMING-SNAKE-CASE", "title-case", "mixed-case",
                   "camel-case", "Kebab-Case", "train-case", "TRAIN-CASE", "Lowercase", "uppercase", "PASCALCASE", "pascalCase", "CamelCase",
                   "snake_case ", " snake_case", "snake case", "shouty-snake-case", "SNAKE_CASE"} \ KnownStyles

Derives == {"EnumString", "AsRefStr", "IntoStaticStr", "Display", "VariantNames", "VariantArray", "EnumIter", "EnumCount",
            "EnumIs", "EnumTryAs", "EnumTable", "FromRepr", "EnumMessage", "EnumProperty", "EnumDiscriminants",
            "ToString"}        \* deprecated, but it interprets `default` like Display does

\* which derives consume which attribute (documentation of each derive / additional_attributes)
UsesEnumKw(k) ==
  CASE k = "serialize_all" -> {"EnumString", "AsRefStr", "IntoStaticStr", "Display", "VariantNames", "EnumMessage"}
    [] k = "ascii_case_insensitive" -> {"EnumString"}
    [] k = "use_phf" -> {"EnumString"}
    [] k = "prefix" -> {"Display", "AsRefStr", "IntoStaticStr", "VariantNames"}
    [] k = "parse_err_ty" -> {"EnumString"}
    [] k = "parse_err_fn" -> {"EnumString"}
    [] k = "const_into_str" -> {"IntoStaticStr"}
    [] k = "crate" -> {"EnumString", "EnumIter", "EnumCount", "EnumMessage", "EnumProperty", "EnumDiscriminants", "VariantNames", "VariantArray"}
    [] k = "name" -> {"EnumDiscriminants"}
    [] k = "vis" -> {"EnumDiscriminants"}
EnumKws == {"serialize_all", "ascii_case_insensitive", "use_phf", "prefix", "parse_err_ty", "parse_err_fn", "const_into_str", "crate", "name", "vis"}
UsesVariantKw(k) ==
  CASE k = "message" -> {"EnumMessage"}
    [] k = "detailed_message" -> {"EnumMessage"}
    [] k = "to_string" -> {"EnumString", "Display", "AsRefStr", "IntoStaticStr", "VariantNames", "EnumMessage"}
    [] k = "transparent" -> {"Display", "AsRefStr", "IntoStaticStr"}
    [] k = "disabled" -> {"EnumString", "Display", "AsRefStr", "IntoStaticStr", "EnumIter", "EnumCount", "FromRepr", "EnumTable",
                          "EnumMessage", "EnumProperty", "EnumIs", "EnumTryAs"}
    [] k = "default" -> {"EnumString", "Display"}
    [] k = "default_with" -> {"EnumString"}
    [] k = "ascii_case_insensitive" -> {"EnumString"}
VariantKws == {"message", "detailed_message", "to_string", "transparent", "disabled", "default", "default_with", "ascii_case_insensitive"}
\* keywords that may legitimately be repeated
MultiUse == {"serialize", "props", "derive", "doc"}

Positions == {"first", "middle", "last"}
Inst(rule, derive, kw, shape, pos, split) == [rule |-> rule, derive |-> derive, kw |-> kw, shape |-> shape, pos |-> pos, split |-> split, ctx |-> "plain"]
InstC(i, c) == [i EXCEPT !.ctx = c]

BaseInstances ==
  \* a struct or union
  {Inst("non_enum", d, "", s, "", FALSE) : d \in Derives, s \in {"struct", "tuple_struct", "unit_struct", "union"}}
  \* a data-carrying variant for VariantArray / EnumTable
  \cup {Inst("data_variant", d, "", s, p, FALSE) : d \in {"VariantArray", "EnumTable"}, s \in {"tuple", "named"}, p \in Positions}
  \* ... also when that variant is marked disabled: VariantArray lists every declared variant, so it has to be a unit variant
  \cup {Inst("data_variant", "VariantArray", "", s, p, FALSE) : s \in {"tuple_disabled", "named_disabled", "tuple0_disabled"}, p \in Positions}
  \* a lifetime parameter for EnumIter / FromRepr / EnumTable
  \cup {Inst("lifetime", d, "", s, "", FALSE) : d \in {"EnumIter", "FromRepr", "EnumTable"}, s \in {"lt", "lt_ty", "lt_only_disabled"}}
  \* a repeated single-use attribute, within one attribute and across attributes
  \cup UNION {{Inst("dup_enum_kw", d, k, "", "", sp) : d \in UsesEnumKw(k), sp \in BOOLEAN} : k \in EnumKws}
  \cup UNION {{Inst("dup_variant_kw", d, k, s, p, sp) : d \in UsesVariantKw(k), s \in {"unit", "tuple1"}, p \in {"first", "last"}, sp \in BOOLEAN} : k \in VariantKws}
  \cup {Inst("dup_field_kw", "EnumString", "default_with", "named", p, sp) : p \in {"first", "last"}, sp \in BOOLEAN}
  \* two default variants
  \cup {Inst("two_defaults", "EnumString", "default", s, "", FALSE) : s \in {"adjacent", "apart", "named_first", "named_second", "both_named"}}
  \* default / transparent on a variant without exactly one field
  \cup {Inst("default_arity", d, "default", s, p, FALSE) : d \in {"EnumString", "Display", "ToString"}, s \in {"unit", "tuple2", "named2", "tuple0"}, p \in {"first", "last"}}
  \cup {Inst("transparent_arity", d, "transparent", s, p, FALSE) : d \in {"Display", "AsRefStr", "IntoStaticStr"}, s \in {"unit", "tuple2", "named2", "tuple0"}, p \in {"first", "last"}}
  \* ... also when the variant carries a to_string / serialize next to `transparent`
  \cup {Inst("transparent_arity", d, "transparent", s, p, FALSE) : d \in {"Display", "AsRefStr", "IntoStaticStr"},
                                                                    s \in {"unit_ts", "tuple2_ts", "named2_ts", "tuple0_ts", "tuple2_ser"}, p \in {"first", "last"}}
  \* placeholders on a unit variant; an empty {} on a tuple variant
  \cup {Inst("unit_placeholder", "Display", "to_string", s, p, FALSE) : s \in {"index", "name", "spec", "via_serialize", "via_prefix",
                                                                            "nonascii_arg", "nonascii_before", "nonascii_around", "nonascii_prefix", "names_const_in_scope", "names_static_in_scope",
                                                                            "escaped_brackets", "unicode_escaped_brackets", "raw_string"}, p \in {"first", "last"}}
  \cup {Inst("empty_placeholder", "Display", "to_string", "tuple1", p, FALSE) : p \in {"first", "last"}}
  \* an unknown serialize_all style
  \cup {Inst("unknown_style", d, "serialize_all", s, "", FALSE) : d \in UsesEnumKw("serialize_all"), s \in NearMissStyles}
  \* only one of parse_err_ty / parse_err_fn
  \cup {Inst("lone_parse_err", "EnumString", k, s, "", FALSE) : k \in {"parse_err_ty", "parse_err_fn"}, s \in {"", "with_default_first", "with_default_last"}}
  \* an unsupported property literal
  \cup {Inst("prop_literal", "EnumProperty", "props", s, p, FALSE) : s \in {"float", "char", "bytestr", "byte", "cstr", "float_after_same_key", "float_after_same_key_split", "char_before_same_key"}, p \in {"first", "last"}}
  \* an unknown keyword
  \cup {Inst("unknown_kw", d, "", s, "", FALSE) : d \in Derives \ {"EnumIs", "EnumTryAs", "EnumTable", "FromRepr", "VariantArray", "EnumDiscriminants"}, s \in {"enum", "variant"}}

\* ---- contexts: the same offence inside differently shaped, otherwise valid enums ----------------
\* (a rejection must not depend on what else the enum contains).  generic: a type parameter and a variant
\* carrying it; disabled_nb: a disabled variant in front; default_nb: a default variant at the end;
\* styled: an enum-level serialize_all.  Each context is offered only where it is itself valid for the derive
\* and does not touch the keyword the instance is about.
Fieldless == {"VariantArray", "EnumTable"}
ContextsOf(d) == {"plain"}
                 \cup (IF d \notin Fieldless THEN {"generic"} ELSE {})
                 \cup (IF d \in UsesVariantKw("disabled") THEN {"disabled_nb"} ELSE {})
                 \cup (IF d \in UsesVariantKw("default") THEN {"default_nb"} ELSE {})
                 \cup (IF d \in UsesEnumKw("serialize_all") THEN {"styled"} ELSE {})
Contexts(i) == IF i.rule \in {"non_enum", "lifetime"} THEN {"plain"}
               ELSE ContextsOf(i.derive)
                    \ ((IF i.kw = "disabled" THEN {"disabled_nb"} ELSE {})
                       \cup (IF i.kw = "default" \/ i.rule \in {"two_defaults", "lone_parse_err"} THEN {"default_nb"} ELSE {})
                       \cup (IF i.kw = "serialize_all" THEN {"styled"} ELSE {}))
Instances == UNION {{InstC(i, c) : c \in Contexts(i)} : i \in BaseInstances}

\* positive controls: the same skeletons without any offence, one per derive and context; they are inside the domain
Controls == UNION {{InstC(Inst("control", d, "", "", "", FALSE), c) : c \in ContextsOf(d)} : d \in Derives}

\* every instance is outside the documented domain by construction, every control inside
InDomain(i) == i.rule = "control"

\* acceptance of an observed outcome o = [ok, panicked, spans (line ranges of the errors' primary spans), item (line range)]
SpanInside(sp, item) == item[1] <= sp[1] /\ sp[2] <= item[2]
Rejected(o) == /\ ~o.ok                                                   \* never silently accepted
               /\ ~o.panicked                                             \* the macro itself never panics
               /\ \E k \in 1..Len(o.spans) : SpanInside(o.spans[k], o.item)   \* reported at the offending item

-----------------------------------------------------------------------------
\* ---- the attribute front-end ---------------------------------------------------
\* metas: the keyword sequence of an item, attrs: index of the attribute each keyword sits in (same length);
\* get_*_properties walks all metas of all #[strum(..)] attributes in order with one `seen` slot per single-use keyword
FrontEndError(metas) == \E a, b \in 1..Len(metas) : a < b /\ metas[a] = metas[b] /\ metas[a] \notin MultiUse
=============================================================================
