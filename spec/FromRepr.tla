------------------------------ MODULE FromRepr ------------------------------
(***************************************************************************)
(* FromRepr (C06) and the discriminant rule it shares with                  *)
(* EnumDiscriminants (C09).  Discr is rustc's rule over ALL declared         *)
(* variants: explicit value, else previous + 1, first 0.  Discriminants are *)
(* integers relative to the definition's anchor (0 unless the definition    *)
(* sits near a type's MIN/MAX): the rule is translation invariant.          *)
(***************************************************************************)
EXTENDS Integers, Sequences, FiniteSets

RECURSIVE Discr(_, _)
Discr(E, i) == IF E.variants[i].disc # <<>> THEN E.variants[i].disc[1]
               ELSE IF i = 1 THEN 0 ELSE Discr(E, i - 1) + 1

Enabled(E) == {i \in 1..Len(E.variants) : ~E.variants[i].dis}
\* from_repr(d): 0 = None, else the declaration index of the enabled variant whose discriminant is d
FromReprSpec(E, d) == LET c == {i \in Enabled(E) : Discr(E, i) = d} IN
                      IF c = {} THEN 0 ELSE CHOOSE i \in c : TRUE
HitSet(E) == {<<Discr(E, i), i>> : i \in Enabled(E)}
\* rustc rejects duplicate discriminant values, so the documented domain has none
DiscrDistinct(E) == \A a, b \in 1..Len(E.variants) : a # b => Discr(E, a) # Discr(E, b)
=============================================================================
