------------------------------ MODULE MC_Paths ------------------------------
(* (A) for C19: sanity of the reference rules over every configuration x root x crate path. *)
EXTENDS Paths, TLC
Roots == {"::core", "::std", "::alloc", "::strum", "::strum_renamed", "core", "std", "alloc", "crate"}
CratePaths == {"", "strum_renamed", "crate::nested::inner::s"}
VARIABLES config, cp, root
Init == config \in Configs /\ cp \in CratePaths /\ root \in Roots
Next == UNCHANGED <<config, cp, root>>
Spec == Init /\ [][Next]_<<config, cp, root>>
OutcomeTableTotal == ExpectedOutcome(config) \in BOOLEAN
StdNeverAllowed == root \in {"::std", "std", "::alloc", "alloc", "core"} => ~RootAllowed(config, cp, root)
StdMacrosRejected == ~MacroAllowed("format") /\ ~MacroAllowed("vec") /\ MacroAllowed("format_args") /\ MacroAllowed("panic")
ConfiguredPathRespected == (cp # "" /\ root = "::strum") => ~RootAllowed(config, cp, root)
=============================================================================
