SPECIFICATION Spec
CONSTANT MaxN = 5
CONSTANT MaxH = 2
INVARIANT WellFormed
INVARIANT YieldInWindow
INVARIANT NoneOnlyWhenShort
INVARIANT LenExact
INVARIANT SameListBothEnds
PROPERTY Fused
PROPERTY Shrinks
CHECK_DEADLOCK FALSE
