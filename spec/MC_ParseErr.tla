---------------------------- MODULE MC_ParseErr ----------------------------
(***************************************************************************)
(* (A) for C18: run-time model of a generated from_str with and without a   *)
(* user error function.  State: the number of invocations of the user       *)
(* function and its last argument; one action per call outcome.             *)
(***************************************************************************)
EXTENDS FromStr, TLC
CONSTANTS MaxCalls

k == 107  K == 75  s_ == 115
Inputs == {<<>>, <<k>>, <<K>>, <<k, s_>>, <<K, s_>>, <<32, k>>}
Variants == {[id |-> <<K>>, ser |-> se, ts |-> <<>>, dis |-> d, def |-> FALSE, aci |-> a] :
                se \in {<<>>, << <<k>> >>, << <<k, s_>> >>}, d \in BOOLEAN, a \in {0, 1, 2}}
Defs == {[style |-> "none", aci |-> a, phf |-> FALSE, perr |-> p, prefix |-> <<>>, variants |-> <<v>>] :
            a \in BOOLEAN, p \in BOOLEAN, v \in Variants}

VARIABLES E, calls, lastArg, n, last
vars == <<E, calls, lastArg, n, last>>
Init == E \in Defs /\ calls = 0 /\ lastArg = <<>> /\ n = 0 /\ last = [k |-> "none", i |-> 0, s |-> <<>>, in |-> <<>>]

Accept(s) == /\ ParseSpec(E, s).k = "variant"
             /\ last' = [ParseSpec(E, s) EXCEPT !.k = "v"] @@ [in |-> s]
             /\ UNCHANGED <<calls, lastArg>>
RejectCustom(s) == /\ ParseSpec(E, s).k = "err" /\ E.perr
                   /\ calls' = calls + 1 /\ lastArg' = s            \* Err(f(s)) with the caller's s
                   /\ last' = [k |-> "ue", i |-> 0, s |-> s, in |-> s]
RejectStandard(s) == /\ ParseSpec(E, s).k = "err" /\ ~E.perr
                     /\ last' = [k |-> "nf", i |-> 0, s |-> <<>>, in |-> s]
                     /\ UNCHANGED <<calls, lastArg>>
Step == n < MaxCalls /\ n' = n + 1 /\ UNCHANGED E
DoAccept         == Step /\ \E s \in Inputs : Accept(s)
DoRejectCustom   == Step /\ \E s \in Inputs : RejectCustom(s)
DoRejectStandard == Step /\ \E s \in Inputs : RejectStandard(s)
Next == DoAccept \/ DoRejectCustom \/ DoRejectStandard
Spec == Init /\ [][Next]_vars

CallsCountRejections == (~E.perr => calls = 0) /\ calls <= n
PayloadVerbatim == last.k = "ue" => last.s = last.in /\ lastArg = last.in
ErrorType == (last.k = "ue" => E.perr) /\ (last.k = "nf" => ~E.perr)
CallsMonotone == [][calls' = calls \/ (calls' = calls + 1 /\ last'.k = "ue")]_vars
=============================================================================
