----------------------------- MODULE MC_FromStr -----------------------------
(***************************************************************************)
(* (A) for C01, C02, C12, C16: the EnumString expansion, executed one       *)
(* variant at a time (SkipDisabled / TakeDefault / PushArms / PushKeys),     *)
(* yields a function that equals ParseSpec on EVERY string of the universe,  *)
(* for EVERY definition of the universe; print-then-parse round-trips;       *)
(* only ASCII letters fold; the phf key list is duplicate-free (after the    *)
(* repair) and changes no result.                                            *)
(***************************************************************************)
EXTENDS FromStr, TLC
CONSTANTS Size,        \* 1 = quick universe, 2 = thorough universe
          Dedup,       \* TRUE = repaired phf key rule, FALSE = the pinned code's rule
          Overlap      \* TRUE = also definitions with overlapping spellings on which first-match semantics is phf-consistent (C16)

k == 107  K == 75  s_ == 115  S == 83  Kelvin == 8490  LongS == 383  One == 49
Chars7 == {k, K, Kelvin, s_, S, LongS, One}
Strs == {<<>>} \cup {<<a>> : a \in Chars7} \cup {<<a, b>> : a \in Chars7, b \in Chars7}

Singles == IF Size = 1 THEN {<<k>>, <<K, s_>>, <<Kelvin>>}
                       ELSE {<<k>>, <<K>>, <<K, s_>>, <<Kelvin>>, <<>>}
PairPool == IF Size = 1 THEN {<<k>>, <<K, s_>>} ELSE {}          \* (pairs are covered by the Size = 1 universe)
TsPool == IF Size = 1 THEN {<<K>>, <<k, s_>>} ELSE {<<K>>, <<LongS>>}
SerCfgs == {<<>>} \cup {<<p>> : p \in Singles}
                  \cup {pq \in {<<p, q>> : p \in PairPool, q \in PairPool} : pq[1] # pq[2]}
TsCfgs == {<<>>} \cup {<<p>> : p \in TsPool}
StylesU == IF Size = 1 THEN {"none"} ELSE {"none", "snake_case"}
\* a variant is enabled, disabled, the default catch-all, or a disabled default (which must not catch anything)
Flags == {<<FALSE, FALSE>>, <<TRUE, FALSE>>, <<FALSE, TRUE>>, <<TRUE, TRUE>>}
VariantsOf(id) == {[id |-> id, ser |-> se, ts |-> t, dis |-> f[1], def |-> f[2], aci |-> a] :
                      se \in SerCfgs, t \in TsCfgs, f \in Flags, a \in {0, 1, 2}}
Defs1 == {[style |-> st, aci |-> a, phf |-> p, prefix |-> <<>>, variants |-> <<v>>] :
             st \in StylesU, a \in BOOLEAN, p \in BOOLEAN, v \in VariantsOf(<<K, s_>>)}
Defs2 == {[style |-> st, aci |-> a, phf |-> p, prefix |-> <<>>, variants |-> <<v, w>>] :
             st \in StylesU, a \in BOOLEAN, p \in BOOLEAN,
             v \in VariantsOf(<<K>>), w \in VariantsOf(<<K, s_>>)}
InDomain(E) == FromStrWF(E) /\ (NonOverlap(E) \/ (Overlap /\ PhfConsistent(E)))

VARIABLES E, i, arms, keys, dflt, pc
vars == <<E, i, arms, keys, dflt, pc>>

Init == /\ E \in {D \in Defs1 \cup Defs2 : InDomain(D)}
        /\ i = 1 /\ arms = <<>> /\ keys = <<>> /\ dflt = 0 /\ pc = "expand"

Cur == E.variants[i]
SkipDisabled == /\ pc = "expand" /\ i <= NV(E) /\ Cur.dis
                /\ i' = i + 1 /\ UNCHANGED <<E, arms, keys, dflt, pc>>
TakeDefault  == /\ pc = "expand" /\ i <= NV(E) /\ ~Cur.dis /\ Cur.def
                /\ dflt' = i /\ i' = i + 1 /\ UNCHANGED <<E, arms, keys, pc>>
PushArms     == /\ pc = "expand" /\ i <= NV(E) /\ ~Cur.dis /\ ~Cur.def /\ ~E.phf
                /\ arms' = arms \o ArmsOf(E, i)
                /\ i' = i + 1 /\ UNCHANGED <<E, keys, dflt, pc>>
PushKeys     == /\ pc = "expand" /\ i <= NV(E) /\ ~Cur.dis /\ ~Cur.def /\ E.phf
                /\ keys' = (IF Dedup THEN DedupKeys(keys \o KeysOf(E, i), {}) ELSE keys \o KeysOf(E, i))
                /\ arms' = arms \o GuardArmsOf(E, i)
                /\ i' = i + 1 /\ UNCHANGED <<E, dflt, pc>>
Finish       == /\ pc = "expand" /\ i > NV(E) /\ pc' = "done"
                /\ UNCHANGED <<E, i, arms, keys, dflt>>
Next == SkipDisabled \/ TakeDefault \/ PushArms \/ PushKeys \/ Finish
Spec == Init /\ [][Next]_vars

Done == pc = "done"
\* C01 (and C16's "same result"): the generated function is ParseSpec, on every string
ExpansionIsSpec == Done => \A s \in Strs : EvalExpansion(arms, keys, dflt, s) = ParseSpec(E, s)
\* C16: phf_map! rejects duplicate keys, so the key list must be duplicate-free
PhfCompiles == Done => KeysDistinct(keys)
\* a disabled variant is never produced, the default only as a capture
NeverDisabled == Done => \A s \in Strs : LET r == ParseSpec(E, s) IN
                    /\ r.k = "variant" => r.i \in Parsable(E)
                    /\ r.k = "capture" => r.i \in DefaultOf(E) /\ r.s = s
\* C02: every spelling, and in particular the canonical name, parses back to its variant
RoundTrip == Done /\ NonOverlap(E) => \A j \in Parsable(E) : LET v == E.variants[j] IN
                /\ ParseSpec(E, BaseName(E, v)).i = j
                /\ \A n \in 1..Len(Spellings(E, v)) : ParseSpec(E, Spellings(E, v)[n]).i = j
\* C12: a match never crosses a non-ASCII code point or a digit: wherever input and spelling
\* differ, both are ASCII letters of a case-insensitive variant
AsciiOnly == Done => \A s \in Strs : LET r == ParseSpec(E, s) IN
                r.k = "variant" =>
                  \E n \in 1..Len(Spellings(E, E.variants[r.i])) :
                     LET sp == Spellings(E, E.variants[r.i])[n] IN
                     /\ Len(sp) = Len(s)
                     /\ \A p \in 1..Len(s) : s[p] # sp[p] =>
                           IsAlpha(s[p]) /\ IsAlpha(sp[p]) /\ IsAci(E, E.variants[r.i])
\* C12: the flag table
FlagTable == Done => \A j \in Idx(E) : IsAci(E, E.variants[j]) =
                        (E.variants[j].aci = 1 \/ (E.aci /\ E.variants[j].aci # 0))
=============================================================================
