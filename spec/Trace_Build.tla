----------------------------- MODULE Trace_Build -----------------------------
(***************************************************************************)
(* Trace specification for compilation outcomes (C20: rejected input; C19:  *)
(* build configurations and the references of generated code).              *)
(***************************************************************************)
EXTENDS Reject, Paths, TraceBase
VARIABLES l
Init == l = 1
IsEvent(op) == l <= Len(Rec) /\ Rec[l].op = op /\ l' = l + 1

\* C20: one instance of a rejection rule, compiled on its own
Compile == /\ IsEvent("compile")
           /\ LET e == Rec[l]  i == InstC(Inst(e.rule, e.derive, e.kw, e.shape, e.pos, e.split), e.ctx) IN
              /\ Require(i \in Instances \cup Controls, l, "compile: not an instance the specification enumerates", i)
              \* e.ctl: the control of this derive and context (same skeleton, no offence) compiled.  Where it did not, the
              \* skeleton itself is broken - some other property's failure - and the instance cannot be judged here.
              /\ Require(InDomain(i) \/ ~e.ctl \/ Rejected(e), l, "rejection",
                         [instance |-> i, compiled |-> e.ok, macro_panicked |-> e.panicked, error_lines |-> e.spans, item_lines |-> e.item,
                          messages |-> e.msgs])
\* C19: one definition x derive set compiled under one build configuration
Build == /\ IsEvent("build")
         /\ LET e == Rec[l] IN
            /\ Require(e.config \in Configs, l, "build: unknown configuration", e.config)
            /\ Require(ExpectedOutcome(e.config) = e.ok, l, "build",
                       [config |-> e.config, def |-> e.def, derives |-> e.derives, compiled |-> e.ok, messages |-> e.msgs])
\* C19: path roots and macros referenced by the generated tokens (from STRUM_DEBUG dumps)
Refs == /\ IsEvent("refs")
        /\ LET e == Rec[l]
               badroots == {k \in 1..Len(e.roots) : ~RootAllowed(e.config, e.crate_path, e.roots[k])}
               badmacros == {k \in 1..Len(e.macros) : ~MacroAllowed(e.macros[k])} IN
           Require(badroots = {} /\ badmacros = {}, l, "refs",
                   [config |-> e.config, def |-> e.def, derive |-> e.derive, bad_roots |-> {e.roots[k] : k \in badroots},
                    bad_macros |-> {e.macros[k] : k \in badmacros}])
Next == Compile \/ Build \/ Refs
Spec == Init /\ [][Next]_<<l>>
=============================================================================
