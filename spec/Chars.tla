------------------------------- MODULE Chars -------------------------------
(***************************************************************************)
(* Strings are sequences of Unicode code points (TLC strings are atomic).  *)
(* Two notions of case: the ASCII-only one (`eq_ignore_ascii_case`,         *)
(* `to_ascii_lowercase`: Lo/Up/Lower/Upper/EqAci) and the Unicode-aware one  *)
(* heck and `str::to_lowercase` use when identifiers are re-cased (U...),    *)
(* modelled for ASCII plus a table of Latin-1 letters; identifiers outside   *)
(* that table are kept out of the case-conversion domain.                   *)
(***************************************************************************)
EXTENDS Naturals, Sequences

IsUpper(c) == c \in 65..90
IsLower(c) == c \in 97..122
IsDigit(c) == c \in 48..57
IsAlpha(c) == IsUpper(c) \/ IsLower(c)
\* identifiers may contain non-ASCII letters: alphanumeric (they never split a word), caseless in this model
IsAlnum(c) == IsAlpha(c) \/ IsDigit(c) \/ c > 127

\* A small table of non-ASCII letters with simple one-to-one case mappings, as heck / str::to_lowercase see them:
\* Latin-1 Supplement U+00C0..U+00DE (except the multiplication sign U+00D7) <-> U+00E0..U+00FE (except U+00F7).
\* (U+00DF sharp s and U+00FF have no one-to-one partner in the table and stay outside the identifier domain.)
IsUpperX(c) == c \in 192..222 /\ c # 215
IsLowerX(c) == c \in 224..254 /\ c # 247
\* ... and a few letters outside Latin-1 whose mappings are still one code point to one code point but have a property the
\* Latin-1 pairs lack: U+023A / U+023E (2 bytes in UTF-8) <-> U+2C65 / U+2C66 (3 bytes): the byte length changes with the case;
\* U+03F4 (capital theta symbol) -> U+03B8 -> U+0398: lower-casing and upper-casing again does not lead back.
UIsUpper(c) == IsUpper(c) \/ IsUpperX(c) \/ c \in {570, 574, 1012, 920}
UIsLower(c) == IsLower(c) \/ IsLowerX(c) \/ c \in {11365, 11366, 952}
ULo(c) == IF IsUpper(c) \/ IsUpperX(c) THEN c + 32
          ELSE IF c = 570 THEN 11365 ELSE IF c = 574 THEN 11366 ELSE IF c \in {1012, 920} THEN 952 ELSE c
UUp(c) == IF IsLower(c) \/ IsLowerX(c) THEN c - 32
          ELSE IF c = 11365 THEN 570 ELSE IF c = 11366 THEN 574 ELSE IF c = 952 THEN 920 ELSE c
\* identifiers of the case-conversion domain: ASCII letters, digits, underscore and the letters of the table
InCaseTable(c) == IsAlpha(c) \/ IsDigit(c) \/ c = 95 \/ UIsUpper(c) \/ UIsLower(c)

Lo(c) == IF IsUpper(c) THEN c + 32 ELSE c
Up(c) == IF IsLower(c) THEN c - 32 ELSE c

Lower(s) == [i \in 1..Len(s) |-> Lo(s[i])]
Upper(s) == [i \in 1..Len(s) |-> Up(s[i])]
Capitalize(s) == IF s = <<>> THEN s ELSE <<Up(s[1])>> \o Lower(Tail(s))
\* the Unicode-aware versions used by the case conversion (heck, str::to_lowercase / to_uppercase)
ULower(s) == [i \in 1..Len(s) |-> ULo(s[i])]
UUpper(s) == [i \in 1..Len(s) |-> UUp(s[i])]
UCapitalize(s) == IF s = <<>> THEN s ELSE <<UUp(s[1])>> \o ULower(Tail(s))

\* ASCII-only case folding: the relation str::eq_ignore_ascii_case decides.
EqAci(a, b) == /\ Len(a) = Len(b)
               /\ \A i \in 1..Len(a) : Lo(a[i]) = Lo(b[i])

\* UTF-8 length in bytes (the code measures "longest serialize" in bytes).
Utf8(c) == IF c < 128 THEN 1 ELSE IF c < 2048 THEN 2 ELSE IF c < 65536 THEN 3 ELSE 4
RECURSIVE ByteLen(_)
ByteLen(s) == IF s = <<>> THEN 0 ELSE Utf8(Head(s)) + ByteLen(Tail(s))

RECURSIVE Join(_, _)
Join(ws, sep) == IF ws = <<>> THEN <<>>
                 ELSE IF Len(ws) = 1 THEN ws[1]
                 ELSE ws[1] \o sep \o Join(Tail(ws), sep)

RECURSIVE Flat(_)
Flat(ws) == IF ws = <<>> THEN <<>> ELSE Head(ws) \o Flat(Tail(ws))

MapSeq(ws, F(_)) == [i \in 1..Len(ws) |-> F(ws[i])]

Rep(c, n) == [i \in 1..n |-> c]
Take(s, n) == IF n >= Len(s) THEN s ELSE SubSeq(s, 1, n)

\* optional values: sequences of length 0 or 1
None == <<>>
Some(x) == <<x>>
IsSome(o) == o # <<>>
The(o) == o[1]

IsPrefixOf(p, s) == Len(p) <= Len(s) /\ SubSeq(s, 1, Len(p)) = p
=============================================================================
