------------------------------ MODULE MC_Reject ------------------------------
(***************************************************************************)
(* (A) for C20: the attribute front-end as a state machine: keywords are    *)
(* read one by one (ReadMeta) across attribute boundaries; a second          *)
(* occurrence of a single-use keyword stops with an error that names both    *)
(* occurrences, multi-use keywords accumulate.  On every keyword sequence up *)
(* to MaxLen, however it is split over attributes: error iff some single-use *)
(* keyword occurs twice.  Also dumps the instance list for the conformance   *)
(* step.                                                                     *)
(***************************************************************************)
EXTENDS Reject, TLC, Json, IOUtils
HK == INSTANCE Heck
CONSTANTS MaxLen
Kws == {"message", "to_string", "disabled", "serialize", "props"}
VARIABLES metas, attrs, i, seen, outcome
vars == <<metas, attrs, i, seen, outcome>>
Init == /\ \E n \in 0..MaxLen : metas \in [1..n -> Kws] /\ attrs \in {f \in [1..n -> 1..n] : \A k \in 1..(n - 1) : f[k] <= f[k + 1] /\ f[k + 1] <= f[k] + 1}
        /\ i = 1 /\ seen = [k \in {} |-> 0] /\ outcome = "reading"
ReadMeta == /\ outcome = "reading" /\ i <= Len(metas)
            /\ IF metas[i] \in MultiUse THEN seen' = seen /\ outcome' = outcome
               ELSE IF metas[i] \in DOMAIN seen THEN seen' = seen /\ outcome' = "error"          \* occurrence_error(first, second)
               ELSE seen' = seen @@ (metas[i] :> i) /\ outcome' = outcome
            /\ i' = i + 1 /\ UNCHANGED <<metas, attrs>>
Finish == outcome = "reading" /\ i > Len(metas) /\ outcome' = "ok" /\ UNCHANGED <<metas, attrs, i, seen>>
Next == ReadMeta \/ Finish
Spec == Init /\ [][Next]_vars
ErrorIffDuplicate == outcome # "reading" => ((outcome = "error") = FrontEndError(metas))
\* the split over attributes does not matter (attrs never enters the outcome) and the first duplicate is reported
ReportsFirstDuplicate == outcome = "error" => \E a \in 1..(i - 2) : metas[a] = metas[i - 1] /\ metas[a] \notin MultiUse
InstancesOutsideDomain == (\A x \in Instances : ~InDomain(x)) /\ (\A x \in Controls : InDomain(x)) /\ Instances \cap Controls = {}
\* every context an instance is placed in has a control
ContextsHaveControls == \A x \in Instances : x.rule \notin {"non_enum"} => \E c \in Controls : c.derive = x.derive /\ c.ctx = x.ctx
========================================================================\* facts about the (constant) instance list: checked once, when the model is loaded
ASSUME InstancesOutsideDomain /\ ContextsHaveControls
ASSUME KnownStyles = HK!AcceptedStyles /\ NearMissStyles \cap HK!AcceptedStyles = {}
=====
