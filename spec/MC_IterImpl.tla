----------------------------- MODULE MC_IterImpl -----------------------------
(***************************************************************************)
(* (A) for C05: the generated iterator's cursor arithmetic (idx, back_idx,  *)
(* `idx + n + 1`, `idx + back_idx`, freeze at COUNT) on a W-bit machine     *)
(* word, in both overflow semantics (debug: panic, release: wrap), refines  *)
(* the abstract contract of EnumIter.tla for EVERY argument 0..2^W-1.        *)
(* Saturating = TRUE is the repaired arithmetic; FALSE the pinned code's.   *)
(* Assumption: the arithmetic only adds and compares with COUNT, so it is   *)
(* uniform in W as long as 2*COUNT < 2^W; W = 4 stands for W = 64.          *)
(***************************************************************************)
EXTENDS Naturals, Sequences, TLC
CONSTANTS W, MaxN, Mode, Saturating
MAXU == 2^W - 1
Panic == MAXU + 100                      \* poison value: an arithmetic panic happened

Add(a, b) == IF a = Panic \/ b = Panic THEN Panic
             ELSE IF a + b <= MAXU THEN a + b
             ELSE IF Saturating THEN MAXU
             ELSE IF Mode = "debug" THEN Panic ELSE (a + b) % (MAXU + 1)
Sub1(a) == IF a = Panic THEN Panic ELSE IF a > 0 THEN a - 1 ELSE IF Mode = "debug" THEN Panic ELSE MAXU

VARIABLES N, idx, back, res, panicked, f, rem, ares
vars == <<N, idx, back, res, panicked, f, rem, ares>>

\* abstract contract (EnumIter.tla) on the single handle [f, rem]
AbsNth(n)     == IF n < rem THEN [res |-> f + n + 1,   f |-> f + n + 1, rem |-> rem - n - 1] ELSE [res |-> 0, f |-> f, rem |-> 0]
AbsNthBack(n) == IF n < rem THEN [res |-> f + rem - n, f |-> f,         rem |-> rem - n - 1] ELSE [res |-> 0, f |-> f, rem |-> 0]

Init == N \in 0..MaxN /\ idx = 0 /\ back = 0 /\ res = 0 /\ panicked = FALSE /\ f = 0 /\ rem = N /\ ares = 0

Get(pos0) == IF pos0 # Panic /\ pos0 < N THEN pos0 + 1 ELSE 0          \* `get(i)`: arm i (0-based) or `_ => None`

\* fn nth(&mut self, n)
ImplNth(n) ==
  LET i2 == Add(Add(idx, n), 1)
      s  == Add(i2, back) IN
  IF s = Panic THEN panicked' = TRUE /\ UNCHANGED <<idx, back, res>>
  ELSE IF s > N THEN idx' = N /\ res' = 0 /\ UNCHANGED <<back, panicked>>
  ELSE IF Sub1(i2) = Panic THEN panicked' = TRUE /\ UNCHANGED <<idx, back, res>>
  ELSE idx' = i2 /\ res' = Get(Sub1(i2)) /\ UNCHANGED <<back, panicked>>
\* fn next_back(&mut self)
NextBackStep(i, b) ==                     \* returns [back, res, panic]
  LET b2 == Add(b, 1)  s == Add(i, b2) IN
  IF s = Panic THEN [back |-> b, res |-> 0, panic |-> TRUE]
  ELSE IF s > N THEN [back |-> N, res |-> 0, panic |-> FALSE]
  ELSE [back |-> b2, res |-> Get(N - b2), panic |-> FALSE]
\* DoubleEndedIterator::nth_back default: advance_back_by(n) (stops at the first None), then next_back
RECURSIVE AdvanceBack(_, _)
AdvanceBack(b, n) == IF n = 0 THEN [back |-> b, ok |-> TRUE, panic |-> FALSE]
                     ELSE LET st == NextBackStep(idx, b) IN
                          IF st.panic THEN [back |-> b, ok |-> FALSE, panic |-> TRUE]
                          ELSE IF st.res = 0 THEN [back |-> st.back, ok |-> FALSE, panic |-> FALSE]
                          ELSE AdvanceBack(st.back, n - 1)
ImplNthBack(n) ==
  LET a == AdvanceBack(back, n) IN
  IF a.panic THEN panicked' = TRUE /\ UNCHANGED <<idx, back, res>>
  ELSE IF ~a.ok THEN back' = a.back /\ res' = 0 /\ UNCHANGED <<idx, panicked>>
  ELSE LET st == NextBackStep(idx, a.back) IN
       IF st.panic THEN panicked' = TRUE /\ UNCHANGED <<idx, back, res>>
       ELSE back' = st.back /\ res' = st.res /\ UNCHANGED <<idx, panicked>>
ImplLen == IF idx + back >= N THEN 0 ELSE N - idx - back

CallNth     == \E n \in 0..MAXU : /\ ~panicked /\ ImplNth(n)
                                  /\ ares' = AbsNth(n).res /\ f' = AbsNth(n).f /\ rem' = AbsNth(n).rem /\ UNCHANGED N
CallNthBack == \E n \in 0..MAXU : /\ ~panicked /\ ImplNthBack(n)
                                  /\ ares' = AbsNthBack(n).res /\ f' = AbsNthBack(n).f /\ rem' = AbsNthBack(n).rem /\ UNCHANGED N
Next == CallNth \/ CallNthBack           \* next() = nth(0), next_back() = nth_back(0)
Spec == Init /\ [][Next]_vars

NoPanic == ~panicked
ResultRefines == ~panicked => res = ares
LenRefines == ~panicked => ImplLen = rem
\* the projection (what clone().collect() would yield) agrees: same window while anything remains
WindowRefines == (~panicked /\ rem > 0) => (idx = f /\ N - idx - back = rem)
CursorsBounded == idx <= N /\ back <= N
=============================================================================
