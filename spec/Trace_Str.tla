------------------------------ MODULE Trace_Str ------------------------------
(***************************************************************************)
(* Trace specification for the string derives: every recorded call of the   *)
(* real generated code (EnumString / TryFrom, Display, AsRefStr,            *)
(* IntoStaticStr, VariantNames, ...) must be a behaviour the specification  *)
(* allows.  State: the definition the following events are about (and its   *)
(* derived tables, computed once when the definition is loaded).            *)
(***************************************************************************)
EXTENDS FromStr, TraceBase

VARIABLES l, E, T
vars == <<l, E, T>>

Init == l = 1 /\ E = [id |-> 0] /\ T = <<>>

IsEvent(op) == l <= Len(Rec) /\ Rec[l].op = op /\ l' = l + 1

LoadDef == /\ IsEvent("def")
           /\ E' = Rec[l].d
           /\ T' = Tables(Rec[l].d)

\* ---- parse: one event = one definition x a batch of inputs ----------------------------------
\* observed result o = [k, i, pd, s, uc, ua]:  k in "v" (variant i, pd = payload is Default/default_with),
\* "c" (default variant i capturing s), "nf" (ParseError::VariantNotFound), "ue" (user error carrying s),
\* "panic"; uc/ua = number and arguments of the user error-function invocations during the call
Agrees(o, x, in) ==
  CASE x.k = "variant" -> o.k = "v" /\ o.i = x.i /\ o.pd /\ o.uc = 0
    [] x.k = "capture" -> o.k = "c" /\ o.i = x.i /\ o.s = in /\ o.uc = 0
    [] x.k = "err"     -> IF E.perr THEN o.k = "ue" /\ o.s = in /\ o.uc = 1 /\ o.ua = <<in>>
                                    ELSE o.k = "nf" /\ o.uc = 0
Parse == /\ IsEvent("parse")
         /\ LET e == Rec[l]
                bad == {n \in 1..Len(e.ins) : ~Agrees(e.res[n], ParseSpecT(E, T, e.ins[n]), e.ins[n])}
            IN /\ Require(e.def = E.id, l, "parse: event is about another definition", e.def)
               /\ Require(e.tf_same, l, "TryFrom<&str> and FromStr disagree", e.tf)
               /\ IF bad = {} THEN TRUE
                  ELSE LET n == CHOOSE n \in bad : \A m \in bad : n <= m IN
                       Mismatch(l, "parse", [def |-> E.id, input |-> e.ins[n], observed |-> e.res[n],
                                             expected |-> ParseSpecT(E, T, e.ins[n]), nbad |-> Cardinality(bad)])
         /\ UNCHANGED <<E, T>>

\* ---- names: every string-producing derive on one value of variant i (C03, C07) -----------------
\* the event carries, as records [k, s], what Display ({}), to_string(), AsRef<str>, <&str>::from(value),
\* <&str>::from(&value), the const into_str() (if const_into_str), and - from a twin enum deriving the
\* deprecated macros - ToString and AsStaticRef returned
Fixed(v) == ~v.dis /\ ~v.def /\ ~v.transp
Names == /\ IsEvent("names")
         /\ LET e == Rec[l]  v == E.variants[e.i]  c == T.canon[e.i]
                bad == {k \in 1..Len(e.outs) : e.outs[k].s # c}
            IN /\ Require(e.def = E.id /\ Fixed(v), l, "names: event outside the property's domain", e.i)
               /\ Require(Len(e.outs) = e.n /\ e.n > 0, l, "names: malformed event", e.i)
               /\ Require(bad = {}, l, "names",
                          [def |-> E.id, variant |-> e.i, canonical |-> c, wrong |-> {e.outs[k] : k \in bad}])
               /\ Require(E.cis => \E k \in 1..Len(e.outs) : e.outs[k].k = "into_str", l, "names: const into_str missing", e.i)
         /\ UNCHANGED <<E, T>>

\* VariantNames::VARIANTS: one canonical name per declared variant, in declaration order (C03, C08)
VNames == /\ IsEvent("vnames")
          /\ LET e == Rec[l] IN
               Require(e.def = E.id /\ e.names = T.canon, l, "vnames",
                       [def |-> E.id, observed |-> e.names, expected |-> T.canon])
          /\ UNCHANGED <<E, T>>

\* ---- round trip: parse(print(v)) (C02) ---------------------------------------------------------
\* src: which printer produced s ("display", "as_ref", "into", "sers"); r: the parse result of s
RoundTrip == /\ IsEvent("rt")
             /\ LET e == Rec[l]  v == E.variants[e.i] IN
                /\ Require(e.def = E.id /\ Fixed(v) /\ ~IsSome(E.prefix), l, "rt: event outside the property's domain", e.i)
                /\ Require(e.r.k = "v" /\ e.r.i = e.i /\ e.r.pd, l, "rt",
                           [def |-> E.id, variant |-> e.i, src |-> e.src, printed |-> e.s, parsed |-> e.r])
                /\ Require(IF e.src = "sers" THEN \E k \in 1..Len(T.sp[e.i]) : T.sp[e.i][k] = e.s
                                              ELSE e.s = T.canon[e.i],
                           l, "rt: printed string is not the specified one", [variant |-> e.i, src |-> e.src, printed |-> e.s])
             /\ UNCHANGED <<E, T>>

\* EnumMessage::get_serializations: exactly the spellings, for every variant, disabled or not (C14, C02, C07)
Sers == /\ IsEvent("sers")
        /\ LET e == Rec[l] IN
             Require(e.def = E.id /\ e.sers = T.sp[e.i], l, "sers",
                     [def |-> E.id, variant |-> e.i, observed |-> e.sers, expected |-> T.sp[e.i]])
        /\ UNCHANGED <<E, T>>

\* ---- conv: a batch of identifiers renamed by one serialize_all style (C07) ----------------------
Conv == /\ IsEvent("conv")
        /\ LET e == Rec[l]
               bad == {n \in 1..Len(e.ids) : e.outs[n] # Convert(e.style, e.ids[n])}
           IN /\ Require(e.style \in AcceptedStyles /\ Len(e.outs) = Len(e.ids), l, "conv: malformed event", e.style)
              /\ IF bad = {} THEN TRUE
                 ELSE LET n == CHOOSE n \in bad : \A m \in bad : n <= m IN
                      Mismatch(l, "conv", [style |-> e.style, ident |-> e.ids[n], observed |-> e.outs[n],
                                           expected |-> Convert(e.style, e.ids[n]), nbad |-> Cardinality(bad)])
        /\ UNCHANGED <<E, T>>

\* a panic inside generated code is an event no action of the specification produces
Panicked == /\ IsEvent("panic")
            /\ Mismatch(l, "panic in generated code", [def |-> Rec[l].def, variant |-> Rec[l].i, msg |-> Rec[l].msg])
            /\ UNCHANGED <<E, T>>

Next == Panicked \/ LoadDef \/ Parse \/ Names \/ VNames \/ RoundTrip \/ Sers \/ Conv
Spec == Init /\ [][Next]_vars
=============================================================================
