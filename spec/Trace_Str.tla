------------------------------ MODULE Trace_Str ------------------------------
(***************************************************************************)
(* Trace specification for the string derives: every recorded call of the   *)
(* real generated code (EnumString / TryFrom, Display, AsRefStr,            *)
(* IntoStaticStr, VariantNames, ...) must be a behaviour the specification  *)
(* allows.  State: the definition the following events are about (and its   *)
(* derived tables, computed once when the definition is loaded).            *)
(***************************************************************************)
EXTENDS FromStr, Display, TraceBase

VARIABLES l, E, T
vars == <<l, E, T>>

Init == l = 1 /\ E = [id |-> 0] /\ T = <<>>

IsEvent(op) == l <= Len(Rec) /\ Rec[l].op = op /\ l' = l + 1

LoadDef == /\ IsEvent("def")
           /\ E' = Rec[l].d
           /\ T' = Tables(Rec[l].d)

\* ---- parse: one event = one definition x a batch of inputs ----------------------------------
\* observed result o = [k, i, pd, s, uc, ua]:  k in "v" (variant i, pd = payload is Default/default_with),
\* "c" (default variant i capturing s), "nf" (ParseError::VariantNotFound), "ue" (user error carrying s),
\* "panic"; uc/ua = number and arguments of the user error-function invocations during the call
Agrees(o, x, in) ==
  CASE x.k = "variant" -> o.k = "v" /\ o.i = x.i /\ o.pd /\ o.uc = 0
    [] x.k = "capture" -> o.k = "c" /\ o.i = x.i /\ o.s = in /\ o.uc = 0
    [] x.k = "err"     -> IF E.perr THEN o.k = "ue" /\ o.s = in /\ o.uc = 1 /\ o.ua = <<in>>
                                    ELSE o.k = "nf" /\ o.uc = 0
Parse == /\ IsEvent("parse")
         /\ LET e == Rec[l]
                bad == {n \in 1..Len(e.ins) : ~Agrees(e.res[n], ParseSpecT(E, T, e.ins[n]), e.ins[n])}
            IN /\ Require(e.def = E.id, l, "parse: event is about another definition", e.def)
               /\ Require(e.tf_same, l, "TryFrom<&str> and FromStr disagree", e.tf)
               /\ IF bad = {} THEN TRUE
                  ELSE LET n == CHOOSE n \in bad : \A m \in bad : n <= m IN
                       Mismatch(l, "parse", [def |-> E.id, input |-> e.ins[n], observed |-> e.res[n],
                                             expected |-> ParseSpecT(E, T, e.ins[n]), nbad |-> Cardinality(bad)])
         /\ UNCHANGED <<E, T>>

\* ---- names: every string-producing derive on one value of variant i (C03, C07) -----------------
\* the event carries, as records [k, s], what Display ({}), to_string(), AsRef<str>, <&str>::from(value),
\* <&str>::from(&value), the const into_str() (if const_into_str), and - from a twin enum deriving the
\* deprecated macros - ToString and AsStaticRef returned
Fixed(v) == ~v.dis /\ ~v.def /\ ~v.transp
Names == /\ IsEvent("names")
         /\ LET e == Rec[l]  v == E.variants[e.i]  c == T.canon[e.i]
                bad == {k \in 1..Len(e.outs) : e.outs[k].s # c}
            IN /\ Require(e.def = E.id /\ Fixed(v), l, "names: event outside the property's domain", e.i)
               /\ Require(Len(e.outs) = e.n /\ e.n > 0, l, "names: malformed event", e.i)
               /\ Require(bad = {}, l, "names",
                          [def |-> E.id, variant |-> e.i, canonical |-> c, wrong |-> {e.outs[k] : k \in bad}])
               /\ Require(E.cis => \E k \in 1..Len(e.outs) : e.outs[k].k = "into_str", l, "names: const into_str missing", e.i)
         /\ UNCHANGED <<E, T>>

\* VariantNames::VARIANTS: one canonical name per declared variant, in declaration order (C03, C08)
VNames == /\ IsEvent("vnames")
          /\ LET e == Rec[l] IN
               Require(e.def = E.id /\ e.names = T.canon, l, "vnames",
                       [def |-> E.id, observed |-> e.names, expected |-> T.canon])
          /\ UNCHANGED <<E, T>>

\* ---- round trip: parse(print(v)) (C02) ---------------------------------------------------------
\* src: which printer produced s ("display", "as_ref", "into", "sers"); r: the parse result of s
RoundTrip == /\ IsEvent("rt")
             /\ LET e == Rec[l]  v == E.variants[e.i] IN
                /\ Require(e.def = E.id /\ Fixed(v) /\ ~IsSome(E.prefix), l, "rt: event outside the property's domain", e.i)
                /\ Require(e.r.k = "v" /\ e.r.i = e.i /\ e.r.pd, l, "rt",
                           [def |-> E.id, variant |-> e.i, src |-> e.src, printed |-> e.s, parsed |-> e.r])
                /\ Require(IF e.src = "sers" THEN \E k \in 1..Len(T.sp[e.i]) : T.sp[e.i][k] = e.s
                                              ELSE e.s = T.canon[e.i],
                           l, "rt: printed string is not the specified one", [variant |-> e.i, src |-> e.src, printed |-> e.s])
             /\ UNCHANGED <<E, T>>

\* EnumMessage::get_serializations: exactly the spellings, for every variant, disabled or not (C14, C02, C07)
Sers == /\ IsEvent("sers")
        /\ LET e == Rec[l] IN
             Require(e.def = E.id /\ e.sers = T.sp[e.i], l, "sers",
                     [def |-> E.id, variant |-> e.i, observed |-> e.sers, expected |-> T.sp[e.i]])
        /\ UNCHANGED <<E, T>>

\* ---- conv: a batch of identifiers renamed by one serialize_all style (C07) ----------------------
Conv == /\ IsEvent("conv")
        /\ LET e == Rec[l]
               bad == {n \in 1..Len(e.ids) : e.outs[n] # Convert(e.style, e.ids[n])}
           IN /\ Require(e.style \in AcceptedStyles /\ Len(e.outs) = Len(e.ids), l, "conv: malformed event", e.style)
              /\ IF bad = {} THEN TRUE
                 ELSE LET n == CHOOSE n \in bad : \A m \in bad : n <= m IN
                      Mismatch(l, "conv", [style |-> e.style, ident |-> e.ids[n], observed |-> e.outs[n],
                                           expected |-> Convert(e.style, e.ids[n]), nbad |-> Cardinality(bad)])
        /\ UNCHANGED <<E, T>>

\* ---- fmt: a fixed-name variant under a grid of format specs (C17) --------------------------------
\* outs = the enum value formatted under each spec, std = its plain rendering (a &str) formatted by std
\* under the same spec; both must be FmtStr(canonical name, spec) - the second equality validates FmtStr
Fmt == /\ IsEvent("fmt")
       /\ LET e == Rec[l]  v == E.variants[e.i]  c == T.canon[e.i]
              bad == {n \in 1..Len(e.specs) : e.outs[n] # FmtStr(c, e.specs[n]) \/ e.std[n] # FmtStr(c, e.specs[n])}
          \* (a catch-all variant WITH a to_string prints that literal: for Display it is a fixed name like any other)
          IN /\ Require(e.def = E.id /\ (Fixed(v) \/ (~v.dis /\ ~v.transp /\ v.def /\ IsSome(v.ts)))
                        /\ Len(e.outs) = Len(e.specs) /\ Len(e.std) = Len(e.specs), l, "fmt: malformed event", e.i)
             /\ IF bad = {} THEN TRUE
                ELSE LET n == CHOOSE n \in bad : \A m \in bad : n <= m IN
                     Mismatch(l, "fmt", [def |-> E.id, variant |-> e.i, spec |-> e.specs[n], observed |-> e.outs[n],
                                         std_says |-> e.std[n], expected |-> FmtStr(c, e.specs[n]), nbad |-> Cardinality(bad)])
       /\ UNCHANGED <<E, T>>

\* ---- fwd: a default / transparent variant next to its inner value (C11) ---------------------------
\* what = "display": both formatted under the same specs; "as_ref" / "into": the derive's result next to the
\* inner value's own result.  The caller's flags must reach the inner value: pairwise equality.
Forwards(v) == ~v.dis /\ (v.transp \/ (v.def /\ ~IsSome(v.ts)))
Fwd == /\ IsEvent("fwd")
       /\ LET e == Rec[l]  v == E.variants[e.i]
              bad == {n \in 1..Len(e.outer) : e.outer[n] # e.inner[n]}
          IN /\ Require(e.def = E.id /\ Forwards(v) /\ Len(e.outer) = Len(e.inner) /\ Len(e.outer) > 0, l,
                        "fwd: event outside the property's domain", e.i)
             /\ IF bad = {} THEN TRUE
                ELSE LET n == CHOOSE n \in bad : \A m \in bad : n <= m IN
                     Mismatch(l, "fwd", [def |-> E.id, variant |-> e.i, what |-> e.what, nth |-> n, outer |-> e.outer[n],
                                         inner |-> e.inner[n], nbad |-> Cardinality(bad)])
       /\ UNCHANGED <<E, T>>

\* ---- caprt: from_str(s).to_string() for captured inputs (C11) -------------------------------------
CapRt == /\ IsEvent("caprt")
         /\ LET e == Rec[l]
                \* a default variant WITH to_string prints that literal; without, the captured input
                want(n) == LET r == ParseSpecT(E, T, e.ins[n]) IN
                           IF r.k # "capture" THEN <<>>
                           ELSE IF IsSome(E.variants[r.i].ts) THEN <<T.canon[r.i]>> ELSE <<e.ins[n]>>
                bad == {n \in 1..Len(e.ins) : e.ts[n] # want(n)}
            IN /\ Require(e.def = E.id /\ Len(e.ts) = Len(e.ins), l, "caprt: malformed event", e.def)
               /\ IF bad = {} THEN TRUE
                  ELSE LET n == CHOOSE n \in bad : \A m \in bad : n <= m IN
                       Mismatch(l, "caprt", [def |-> E.id, input |-> e.ins[n], printed |-> e.ts[n], nbad |-> Cardinality(bad)])
         /\ UNCHANGED <<E, T>>

\* ---- interp: a to_string literal with placeholders (C17) ------------------------------------------
\* obs = Display of the value, std = format!(literal, fields...) written out by hand, fr = std's rendering of
\* each used (field, spec) pair; binding by name/position, order and brace escapes are Interp's
InterpEv == /\ IsEvent("interp")
            /\ LET e == Rec[l]  v == E.variants[e.i]  lit == T.canon[e.i]      \* prefix \o to_string literal
                   want == Interp(v, lit, e.fr)
               IN /\ Require(e.def = E.id /\ ~v.dis /\ IsSome(v.ts) /\ Interpolates(v, lit), l,
                             "interp: event outside the property's domain", e.i)
                  /\ Require(e.obs = want /\ e.std = want, l, "interp",
                             [def |-> E.id, variant |-> e.i, literal |-> lit, observed |-> e.obs, format_says |-> e.std,
                              expected |-> want])
            /\ UNCHANGED <<E, T>>

\* ---- perr: the error value of a failed parse (strum::ParseError) -----------------------------------
PErr == /\ IsEvent("perr")
        /\ LET e == Rec[l] IN
           /\ Require(e.def = E.id /\ ~E.perr /\ ParseSpecT(E, T, e.input).k = "err", l, "perr: event outside the domain", e.def)
           /\ Observe(/\ e.display = ParseErrorDisplay /\ e.dyn_display = ParseErrorDisplay /\ e.padded = ParseErrorDisplay
                       /\ e.debug = ParseErrorDebug /\ e.descr = ParseErrorDescr
                       /\ e.source_none /\ e.eq_copy /\ e.hash_same,
                       l, "perr", [def |-> E.id, display |-> e.display, debug |-> e.debug, padded |-> e.padded,
                                   source_none |-> e.source_none, eq_copy |-> e.eq_copy, hash_same |-> e.hash_same])
        /\ UNCHANGED <<E, T>>

\* a panic inside generated code is an event no action of the specification produces
Panicked == /\ IsEvent("panic")
            /\ Mismatch(l, "panic in generated code", [def |-> Rec[l].def, variant |-> Rec[l].i, msg |-> Rec[l].msg])
            /\ UNCHANGED <<E, T>>

Next == Panicked \/ PErr \/ Fmt \/ Fwd \/ CapRt \/ InterpEv \/ LoadDef \/ Parse \/ Names \/ VNames \/ RoundTrip \/ Sers \/ Conv
Spec == Init /\ [][Next]_vars
=============================================================================
