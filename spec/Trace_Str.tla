------------------------------ MODULE Trace_Str ------------------------------
(***************************************************************************)
(* Trace specification for the string derives: every recorded call of the   *)
(* real generated code (EnumString / TryFrom, Display, AsRefStr,            *)
(* IntoStaticStr, VariantNames, ...) must be a behaviour the specification  *)
(* allows.  State: the definition the following events are about (and its   *)
(* derived tables, computed once when the definition is loaded).            *)
(***************************************************************************)
EXTENDS FromStr, TraceBase

VARIABLES l, E, T
vars == <<l, E, T>>

Init == l = 1 /\ E = [id |-> 0] /\ T = <<>>

IsEvent(op) == l <= Len(Rec) /\ Rec[l].op = op /\ l' = l + 1

LoadDef == /\ IsEvent("def")
           /\ E' = Rec[l].d
           /\ T' = Tables(Rec[l].d)

\* ---- parse: one event = one definition x a batch of inputs ----------------------------------
\* observed result o = [k, i, pd, s, uc, ua]:  k in "v" (variant i, pd = payload is Default/default_with),
\* "c" (default variant i capturing s), "nf" (ParseError::VariantNotFound), "ue" (user error carrying s),
\* "panic"; uc/ua = number and arguments of the user error-function invocations during the call
Agrees(o, x, in) ==
  CASE x.k = "variant" -> o.k = "v" /\ o.i = x.i /\ o.pd /\ o.uc = 0
    [] x.k = "capture" -> o.k = "c" /\ o.i = x.i /\ o.s = in /\ o.uc = 0
    [] x.k = "err"     -> IF E.perr THEN o.k = "ue" /\ o.s = in /\ o.uc = 1 /\ o.ua = <<in>>
                                    ELSE o.k = "nf" /\ o.uc = 0
Parse == /\ IsEvent("parse")
         /\ LET e == Rec[l]
                bad == {n \in 1..Len(e.ins) : ~Agrees(e.res[n], ParseSpecT(E, T, e.ins[n]), e.ins[n])}
            IN /\ Require(e.def = E.id, l, "parse: event is about another definition", e.def)
               /\ Require(e.tf_same, l, "TryFrom<&str> and FromStr disagree", e.tf)
               /\ IF bad = {} THEN TRUE
                  ELSE LET n == CHOOSE n \in bad : \A m \in bad : n <= m IN
                       Mismatch(l, "parse", [def |-> E.id, input |-> e.ins[n], observed |-> e.res[n],
                                             expected |-> ParseSpecT(E, T, e.ins[n]), nbad |-> Cardinality(bad)])
         /\ UNCHANGED <<E, T>>

Next == LoadDef \/ Parse
Spec == Init /\ [][Next]_vars
=============================================================================
