-------------------------------- MODULE Paths --------------------------------
(***************************************************************************)
(* C19: what generated code may refer to.                                    *)
(*  - Configs: the build configurations every in-domain definition must      *)
(*    compile under;                                                         *)
(*  - RootAllowed: the leading segment(s) of an absolute or relative path in *)
(*    the generated tokens;                                                  *)
(*  - AllowedMacros: macros generated code may invoke (core-only).           *)
(***************************************************************************)
EXTENDS Naturals, Sequences
Configs == {"no_std", "renamed", "nested", "alias", "facade", "shadow"}
\* every in-domain definition compiles under every configuration
ExpectedOutcome(config) == TRUE
\* a root is logged as a string: "::core", "::std", "::alloc", "::strum", "core", "std", "alloc", or the configured
\* crate path; only what is certainly wrong is flagged: std/alloc roots, a relative core/std root (a local module
\* could shadow it), and a literal ::strum when another crate path is configured
RootAllowed(config, crate_path, root) ==
  /\ root \notin {"::std", "::alloc", "std", "alloc", "core"}
  /\ (crate_path # "" => root # "::strum")
\* only what is certainly wrong is flagged: macros that exist only with std / alloc (format_args!, panic!, write!,
\* concat!, matches!, assert!, ... live in core and are fine)
StdOnlyMacros == {"format", "vec", "println", "print", "eprintln", "eprint", "dbg", "thread_local"}
MacroAllowed(m) == m \notin StdOnlyMacros
=============================================================================
