SPECIFICATION Spec
CONSTANT MaxV = 6
INVARIANT TableIsIterList
INVARIANT CountIsLen
INVARIANT OnePerVariant
INVARIANT SamePositions
INVARIANT StrictlyIncreasing
INVARIANT NoDisabled
CHECK_DEADLOCK FALSE
