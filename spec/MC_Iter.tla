------------------------------- MODULE MC_Iter -------------------------------
(***************************************************************************)
(* (A) for C05: the abstract iterator contract explored exhaustively for    *)
(* N = 0..MaxN items with up to MaxH live handles, every argument           *)
(* 0..N+1 (N+1 stands for "any n >= remaining", incl. usize::MAX).           *)
(***************************************************************************)
EXTENDS EnumIter
CONSTANTS MaxN, MaxH
VARIABLES last       \* the last call: [h, res, before]
vars == <<N, its, last>>
Handles == 1..MaxH
Args == 0..(MaxN + 1)

NoCall == [h |-> 0, res |-> 0, before |-> Fresh(0)]
Init == N \in 0..MaxN /\ its = (1 :> Fresh(N)) /\ last = NoCall
DoNext     == \E h \in DOMAIN its : \E r \in 0..MaxN : Next(h, r) /\ last' = [h |-> h, res |-> r, before |-> its[h]]
DoNextBack == \E h \in DOMAIN its : \E r \in 0..MaxN : NextBack(h, r) /\ last' = [h |-> h, res |-> r, before |-> its[h]]
DoNth      == \E h \in DOMAIN its : \E n \in Args : \E r \in 0..MaxN : Nth(h, n, r) /\ last' = [h |-> h, res |-> r, before |-> its[h]]
DoNthBack  == \E h \in DOMAIN its : \E n \in Args : \E r \in 0..MaxN : NthBack(h, n, r) /\ last' = [h |-> h, res |-> r, before |-> its[h]]
DoClone    == \E h \in DOMAIN its : \E h2 \in Handles : Clone(h, h2) /\ last' = NoCall
DoDrop     == \E h \in DOMAIN its : Cardinality(DOMAIN its) > 1 /\ Drop(h) /\ last' = NoCall
Next_ == DoNext \/ DoNextBack \/ DoNth \/ DoNthBack \/ DoClone \/ DoDrop
Spec == Init /\ [][Next_]_vars

\* what was yielded lies in the window that was remaining before the call, and leaves it
YieldInWindow == last.res # 0 =>
                   /\ last.res > last.before.f /\ last.res <= last.before.f + last.before.rem
                   /\ last.h \in DOMAIN its =>
                        (last.res <= its[last.h].f \/ last.res > its[last.h].f + its[last.h].rem)
NoneOnlyWhenShort == (last.h # 0 /\ last.res = 0 /\ last.h \in DOMAIN its) => its[last.h].rem = 0
LenExact == \A h \in DOMAIN its : ItLen(its[h]) = Len(ItRemaining(its[h]))
\* front and back agree on the same list: remaining = the window of 1..N
SameListBothEnds == \A h \in DOMAIN its : \A k \in 1..its[h].rem :
                       /\ ItNth(its[h], k - 1).res = ItRemaining(its[h])[k]
                       /\ ItNthBack(its[h], k - 1).res = ItRemaining(its[h])[its[h].rem - k + 1]
=============================================================================
