------------------------------ MODULE EnumIter ------------------------------
(***************************************************************************)
(* The iterator returned by E::iter(), as a user may rely on it (C04, C05,  *)
(* C08): a double-ended, exact-size, fused iterator over the fixed list of  *)
(* enabled variants.  Abstract state of a live iterator handle: f = number  *)
(* of items taken from the front, rem = number of items remaining; the      *)
(* remaining items are positions f+1 .. f+rem of IterList.  Handles are     *)
(* independent values (clone copies the state).                             *)
(***************************************************************************)
EXTENDS Naturals, Sequences, FiniteSets, TLC

\* the fixed list: declaration indices of the enabled variants, in declaration order
IterList(E) == SelectSeq([i \in 1..Len(E.variants) |-> i], LAMBDA i : ~E.variants[i].dis)
Count(E) == Len(IterList(E))

VARIABLES N,      \* number of enabled variants of the enum the handles iterate over
          its     \* live handle -> [f, rem]
ivars == <<N, its>>

Fresh(n) == [f |-> 0, rem |-> n]
\* pure transition functions: [res (position 1..N, 0 = None), st]
ItNth(st, n)     == IF n < st.rem THEN [res |-> st.f + n + 1,      st |-> [f |-> st.f + n + 1, rem |-> st.rem - n - 1]]
                                  ELSE [res |-> 0,                 st |-> [f |-> st.f,         rem |-> 0]]
ItNthBack(st, n) == IF n < st.rem THEN [res |-> st.f + st.rem - n, st |-> [f |-> st.f,         rem |-> st.rem - n - 1]]
                                  ELSE [res |-> 0,                 st |-> [f |-> st.f,         rem |-> 0]]
ItNext(st)     == ItNth(st, 0)
ItNextBack(st) == ItNthBack(st, 0)
ItRemaining(st) == [k \in 1..st.rem |-> st.f + k]
ItLen(st) == st.rem

\* actions (h = handle, n = argument; r = the call's result, constrained by the action)
New(h)            == h \notin DOMAIN its /\ its' = its @@ (h :> Fresh(N)) /\ UNCHANGED N
Next(h, r)        == h \in DOMAIN its /\ r = ItNext(its[h]).res /\ its' = [its EXCEPT ![h] = ItNext(its[h]).st] /\ UNCHANGED N
NextBack(h, r)    == h \in DOMAIN its /\ r = ItNextBack(its[h]).res /\ its' = [its EXCEPT ![h] = ItNextBack(its[h]).st] /\ UNCHANGED N
Nth(h, n, r)      == h \in DOMAIN its /\ r = ItNth(its[h], n).res /\ its' = [its EXCEPT ![h] = ItNth(its[h], n).st] /\ UNCHANGED N
NthBack(h, n, r)  == h \in DOMAIN its /\ r = ItNthBack(its[h], n).res /\ its' = [its EXCEPT ![h] = ItNthBack(its[h], n).st] /\ UNCHANGED N
Clone(h, h2)      == h \in DOMAIN its /\ h2 \notin DOMAIN its /\ its' = its @@ (h2 :> its[h]) /\ UNCHANGED N
Drop(h)           == h \in DOMAIN its /\ its' = [x \in DOMAIN its \ {h} |-> its[x]] /\ UNCHANGED N

\* contract invariants (checked in MC_Iter)
WellFormed == \A h \in DOMAIN its : its[h].f + its[h].rem <= N
\* action properties
Fused    == [][\A h \in DOMAIN its \cap DOMAIN its' : its[h].rem = 0 => its'[h].rem = 0]_ivars
Shrinks  == [][\A h \in DOMAIN its \cap DOMAIN its' :
                  /\ its'[h].f >= its[h].f
                  /\ its'[h].f + its'[h].rem <= its[h].f + its[h].rem]_ivars        \* the window only narrows: no item twice
=============================================================================
