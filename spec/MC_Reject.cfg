SPECIFICATION Spec
CONSTANT MaxLen = 4
INVARIANT ErrorIffDuplicate
INVARIANT ReportsFirstDuplicate
INVARIANT InstancesOutsideDomain
CHECK_DEADLOCK FALSE
