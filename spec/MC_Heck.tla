------------------------------ MODULE MC_Heck ------------------------------
(***************************************************************************)
(* (A) for C07/C13: heck's scanner, executed one character at a time as a  *)
(* state machine, produces exactly the words the declarative boundary rule *)
(* names, for EVERY identifier-like string up to MaxLen over Alphabet; and *)
(* the per-style outputs have the shape the style's name promises.         *)
(***************************************************************************)
EXTENDS Heck, TLC
CONSTANTS MaxLen,
          Latin1       \* TRUE: the alphabet also holds a non-ASCII letter pair of the case table (e-acute / E-acute)
Alphabet == {97, 98, 65, 66, 49, 95} \cup (IF Latin1 THEN {233, 201} ELSE {})      \* a b A B 1 _ (e' E')
RECURSIVE StrsUpTo(_)
StrsUpTo(n) == IF n = 0 THEN {<<>>}
               ELSE LET P == StrsUpTo(n - 1) IN
                    P \cup {Append(p, c) : p \in {q \in P : Len(q) = n - 1}, c \in Alphabet}
Universe == StrsUpTo(MaxLen)

VARIABLES s, segs, k, i, init, mode, words, pc
vars == <<s, segs, k, i, init, mode, words, pc>>

Init == /\ s \in Universe
        /\ segs = Segs(s) /\ k = 1 /\ i = 1 /\ init = 1 /\ mode = "B" /\ words = <<>>
        /\ pc = "scan"

Seg == segs[k]
NextSegment == /\ pc = "scan" /\ k <= Len(segs) /\ i > Len(Seg)
               /\ k' = k + 1 /\ i' = 1 /\ init' = 1 /\ mode' = "B"
               /\ UNCHANGED <<s, segs, words, pc>>
Trailing == /\ pc = "scan" /\ k <= Len(segs) /\ i = Len(Seg)
            /\ words' = Append(words, SubSeq(Seg, init, Len(Seg)))
            /\ i' = i + 1
            /\ UNCHANGED <<s, segs, k, init, mode, pc>>
SplitAfter == /\ pc = "scan" /\ k <= Len(segs) /\ i < Len(Seg)
              /\ BoundaryAfter(Seg, i, mode)
              /\ words' = Append(words, SubSeq(Seg, init, i))
              /\ init' = i + 1 /\ mode' = "B" /\ i' = i + 1
              /\ UNCHANGED <<s, segs, k, pc>>
SplitBefore == /\ pc = "scan" /\ k <= Len(segs) /\ i < Len(Seg)
               /\ ~BoundaryAfter(Seg, i, mode) /\ BoundaryBefore(Seg, i, mode)
               /\ words' = Append(words, SubSeq(Seg, init, i - 1))
               /\ init' = i /\ mode' = "B" /\ i' = i + 1
               /\ UNCHANGED <<s, segs, k, pc>>
Advance == /\ pc = "scan" /\ k <= Len(segs) /\ i < Len(Seg)
           /\ ~BoundaryAfter(Seg, i, mode) /\ ~BoundaryBefore(Seg, i, mode)
           /\ mode' = NextMode(Seg[i], mode) /\ i' = i + 1
           /\ UNCHANGED <<s, segs, k, init, words, pc>>
Finish == /\ pc = "scan" /\ k > Len(segs) /\ pc' = "done"
          /\ UNCHANGED <<s, segs, k, i, init, mode, words>>
Next == NextSegment \/ Trailing \/ SplitAfter \/ SplitBefore \/ Advance \/ Finish
Spec == Init /\ [][Next]_vars

\* ---- invariants --------------------------------------------------------
ScannerEqualsRule == pc = "done" => /\ words = DeclWords(s)
                                     /\ words = ScanWords(s)
WordsPartition == pc = "done" =>
   /\ \A w \in 1..Len(words) : words[w] # <<>> /\ \A j \in 1..Len(words[w]) : IsAlnum(words[w][j])
   /\ Flat(words) = SelectSeq(s, IsAlnum)          \* nothing lost, nothing invented, order kept
StyleShapes == pc = "done" =>
   /\ NoUpper(Convert("snake_case", s)) /\ OnlyAlnumOr(Convert("snake_case", s), 95)
   /\ NoUpper(Convert("kebab-case", s)) /\ OnlyAlnumOr(Convert("kebab-case", s), 45)
   /\ NoLower(Convert("SCREAMING_SNAKE_CASE", s)) /\ OnlyAlnumOr(Convert("SCREAMING_SNAKE_CASE", s), 95)
   /\ NoLower(Convert("SCREAMING-KEBAB-CASE", s)) /\ OnlyAlnumOr(Convert("SCREAMING-KEBAB-CASE", s), 45)
   /\ OnlyAlnumOr(Convert("title_case", s), 32) /\ OnlyAlnumOr(Convert("Train-Case", s), 45)
   /\ OnlyAlnumOr(Convert("PascalCase", s), 0) /\ OnlyAlnumOr(Convert("camelCase", s), 0)
   /\ Len(Convert("lowercase", s)) = Len(s) /\ NoUpper(Convert("lowercase", s))
   /\ Len(Convert("UPPERCASE", s)) = Len(s) /\ NoLower(Convert("UPPERCASE", s))
   /\ ULower(Convert("lowercase", s)) = ULower(s) /\ ULower(Convert("UPPERCASE", s)) = ULower(s)
   \* letters and digits survive every style, only case and separators change
   /\ \A t \in Styles \ {"lowercase", "UPPERCASE"} :
         ULower(SelectSeq(Convert(t, s), IsAlnum)) = ULower(SelectSeq(s, IsAlnum))
   /\ \A t \in AcceptedStyles : Convert(t, s) = ConvertImpl(t, s)
   /\ Convert("camel_case", s) = Convert("PascalCase", s)
   /\ Convert("mixed_case", s) = Convert("camelCase", s)     \* on ASCII the two coincide
SnakifyShape == pc = "done" =>
   LET t == Snakify(s) IN
   /\ NoUpper(t)
   /\ \A j \in 2..Len(t) : (IsDigit(t[j]) /\ ~IsDigit(t[j - 1])) => t[j - 1] = 95
   /\ SelectSeq(t, IsAlnum) = ULower(SelectSeq(s, IsAlnum))
=============================================================================
