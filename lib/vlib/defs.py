"""Abstract enum definitions (the JSON form of the specification's EnumDef records) and the 1:1 printer to Rust.
The printer carries no semantics: every record field becomes one attribute / token."""
import json, random
from .core import cp, uncp

STYLES = ["camelCase", "PascalCase", "kebab-case", "snake_case", "SCREAMING_SNAKE_CASE", "SCREAMING-KEBAB-CASE",
          "lowercase", "UPPERCASE", "title_case", "mixed_case", "Train-Case"]
ALIASES = ["camel_case", "snek_case", "kebab_case", "shouty_snake_case", "shouty_snek_case"]

# field types: rust type, default value expr, a non-default value expr, second non-default, default_with fn (in vsupport)
TYPES = {
    "u8": ("u8", "0u8", "7u8", "9u8", "dw_u8"),
    "i32": ("i32", "0i32", "-5i32", "11i32", "dw_i32"),
    "bool": ("bool", "false", "true", "true", "dw_bool"),
    "String": ("String", "String::new()", 'String::from("pay")', 'String::from("Zq")', "dw_string"),
    "opt": ("Option<u8>", "None", "Some(3u8)", "Some(4u8)", "dw_opt"),
    "tricky": ("Tricky", "<Tricky as ::core::default::Default>::default()", "Tricky(7)", "Tricky(8)", "dw_tricky"),   # inherent default() != Default
    "T": ("T", "<T as Default>::default()", None, None, None),          # only inside generic enums; T := u16
    "str": ("&'a str", '""', '"brw"', '"bq"', None),                       # only with a lifetime parameter
    "arr": ("Arr<N>", "Arr::<N>::default()", None, None, None),           # const generic marker
    "boxstr": ("Box<str>", 'Box::<str>::from("")', 'Box::<str>::from("bx")', 'Box::<str>::from("by")', None),
    "sstr": ("&'static str", '""', '"st"', '"su"', None),
    "trickystr": ("TrickyStr", "TrickyStr(String::new())", 'TrickyStr(String::from("ta"))', 'TrickyStr(String::from("tb"))', None),
    "i64": ("i64", "0i64", "-9i64", "77i64", None),
    "u16": ("u16", "0u16", "513u16", "2u16", None),
    "usize": ("usize", "0usize", "3usize", "9usize", None),
    # payloads that are Default for EVERY T (only with the parameter `tynd`, which has no Default bound)
    "optT": ("Option<T>", "None", "None", "None", None),
    "phT": ("::core::marker::PhantomData<T>", "::core::marker::PhantomData", "::core::marker::PhantomData", "::core::marker::PhantomData", None),
    # invariant in the lifetime parameter (only with a lifetime parameter): a borrow of the enum is shorter than 'a and cannot be stretched
    "cellstr": ("::core::cell::Cell<&'a str>", '::core::cell::Cell::new("")', '::core::cell::Cell::new("brw")', '::core::cell::Cell::new("bq")', None),
    # a USER type that is named like a prelude type (defined next to the enum, in a module of their own: `user_scope`)
    "uopt": ("Option", "user_scope::Option(0)", "user_scope::Option(3)", "user_scope::Option(4)", None),
    "optboxT": ("Option<Box<T>>", "None", "None", "None", None),              # only with the parameter `tyq`
    "unit": ("()", "()", "()", "()", None),                                   # a zero-sized payload
    "arr2": ("[u8; 2]", "[0u8; 2]", "[1u8, 2u8]", "[3u8, 4u8]", None),
    "tup": ("(u8, bool)", "(0u8, false)", "(1u8, true)", "(2u8, false)", None),
    "optstr": ("Option<String>", "None", 'Some(String::from("a"))', 'Some(String::new())', None),
    # a payload whose Default must never run: only on DISABLED variants (nothing may build the payload of a variant that is left out)
    "panicdef": ("PanicDefault", "PanicDefault::default()", "PanicDefault(1)", "PanicDefault(2)", None),
    # a payload that mentions the enum itself (special definitions only: the enum supplies its own Default)
    "boxself": ("Box<Self>", "Box::new(::core::default::Default::default())", "Box::new(::core::default::Default::default())",
                "Box::new(::core::default::Default::default())", None),
    "mutref": ("&'a mut u8", None, None, None, None),                     # only with a lifetime parameter; values need a place (strgen)
    "char": ("char", "'\\0'", "'q'", "'r'", None),
    # an inner value of a default variant that is neither Send nor Sync
    "rcstr": ("::std::rc::Rc<str>", '::std::rc::Rc::<str>::from("")', '::std::rc::Rc::<str>::from("ra")', '::std::rc::Rc::<str>::from("rb")', None),
}
# instantiations of generic parameters used by drivers
GENERICS = {
    "none": dict(decl="", inst="", tparam=None),
    "ty": dict(decl="<T: Default + Clone + PartialEq + ::core::fmt::Debug>", inst="<u16>", tparam="u16"),
    "tywhere": dict(decl="<T>", where=" where T: Default + Clone + PartialEq + ::core::fmt::Debug", inst="<u16>", tparam="u16"),
    "lt": dict(decl="<'a>", inst="<'static>", tparam=None),
    "tydef": dict(decl="<T: Default + Clone + PartialEq + ::core::fmt::Debug = u8>", impl_decl="<T: Default + Clone + PartialEq + ::core::fmt::Debug>",
                  inst="<u16>", tparam="u16"),
    "constdef": dict(decl="<const N: usize = 2>", impl_decl="<const N: usize>", inst="<3>", tparam=None),
    "const": dict(decl="<const N: usize>", inst="<3>", tparam=None),
    "tyconst": dict(decl="<T: Default + Clone + PartialEq + ::core::fmt::Debug, const N: usize>", inst="<u16, 2>", tparam="u16"),
    # a parameter that is only Debug, instantiated with a type that has no Display (C17: `{0:?}` needs no Display bound)
    "tydbg": dict(decl="<T: ::core::fmt::Debug + Clone + PartialEq>", inst="<DbgOnly>", tparam=None),
    # a parameter WITHOUT a Default bound, instantiated with a type that has none
    "tynd": dict(decl="<T: ::core::fmt::Debug + Clone + PartialEq>", inst="<NoDef>", tparam=None),
    # a parameter that may be unsized (written inline; only behind Box / PhantomData), instantiated with str
    "tyq": dict(decl="<T: ?Sized>", inst="<str>", tparam=None),
}


# identifiers that are keywords are written as raw identifiers (r#type); the identifier itself - what every derive names the
# variant after - is the word without the prefix
KEYWORDS = {"type", "fn", "match", "loop", "async", "move", "ref", "use", "where", "while", "yield", "box", "dyn", "impl", "try", "gen", "return", "break", "continue", "else", "static", "const"}


def rs_ident(name):
    return "r#" + name if name in KEYWORDS else name


def vid(v):
    """a variant's identifier as written in source"""
    return rs_ident(uncp(v["id"]))


def rs_str(cps):
    """code points -> Rust string literal"""
    out = ['"']
    for c in cps:
        ch = chr(c)
        if ch == '"':
            out.append('\\"')
        elif ch == "\\":
            out.append("\\\\")
        elif 32 <= c < 127:
            out.append(ch)
        else:
            out.append("\\u{%x}" % c)
    out.append('"')
    return "".join(out)


def lit_str(cps, form=0):
    """a string literal of an ATTRIBUTE in one of several source forms with the same value: 0 escapes for everything outside
    printable ASCII, 1 raw string, 2 the characters themselves, 3 \\x / \\u{..} escapes even for printable ASCII"""
    s = "".join(chr(c) for c in cps)
    plain = all(c >= 32 and c != 127 for c in cps)
    if form == 1 and plain:
        n = 0
        while ('"' + "#" * n) in s:
            n += 1
        if n == 0 and "\\" not in s and '"' not in s and len(s) % 2:
            return rs_str(cps)                    # nothing would differ from the plain form; keep some of these plain
        return "r" + "#" * n + '"' + s + '"' + "#" * n
    if form == 2 and plain:
        return '"' + s.replace("\\", "\\\\").replace('"', '\\"') + '"'
    if form == 3 and cps:
        out = ['"']
        for k, c in enumerate(cps):
            if k == 0 and c < 128:
                out.append("\\x%02x" % c)
            elif k == len(cps) - 1 and k > 0:
                out.append("\\u{%04X}" % c)
            else:
                out.append(rs_str([c])[1:-1])
        return "".join(out) + '"'
    return rs_str(cps)


def variant(ident, kind="unit", fields=None, ser=(), ts=None, dis=False, default=False, transp=False, aci=2,
            dwith="", msg=None, dmsg=None, docs=(), props=(), disc=None, discx="", acif=0):
    """Build a variant record.  Strings are given as python str and stored as code points."""
    return dict(id=cp(ident), kind=kind, fields=list(fields or []), nf=len(fields or []),
                ser=[cp(s) for s in ser], ts=[] if ts is None else [cp(ts)], dis=dis, transp=transp,
                aci=aci, acif=acif, dwith=dwith, msg=[] if msg is None else [cp(msg)],
                dmsg=[] if dmsg is None else [cp(dmsg)], docs=[cp(d) for d in docs],
                props=list(props), disc=[] if disc is None else [disc], discx=discx, **{"def": default})


def field(ty, name="", dw=""):
    return dict(name=name, ncp=cp(name), ty=ty, dw=dw)


def enum(did, variants, style="none", prefix=None, aci=False, phf=False, perr=False, cis=False, generics="none",
         repr_="none", crate="none", split=0, name=None, **extra):
    # every definition may write its variant attributes in another order (deterministic per definition)
    for k, v in enumerate(variants):
        if "order" not in v and (did + k) % 3:
            v["order"] = did * 31 + k + 1
        if "litform" not in v:
            v["litform"] = (did * 7 + k) % 5 % 4        # how the variant's string literals are written in the source
        if "tcomma" not in v and (did + 2 * k) % 5 == 1:
            v["tcomma"] = True                           # `V(u8,)`: the field list ends in a comma
    # every fourth definition of a corpus carries the SAME type name (each lives in its own module): a derive must not carry
    # anything over from one expansion to the next
    name = name or ("Shared" if did % 4 == 0 and did > 0 else "E%d" % did)
    d = dict(id=did, name=name, namecp=cp(name), style=style, prefix=[] if prefix is None else [cp(prefix)], aci=aci,
             phf=phf, perr=perr, cis=cis, generics=generics, repr=repr_, crate=crate, split=split,
             variants=list(variants))
    if did % 3 == 1:
        d["eorder"] = did * 17 + 3          # the enum-level items are written in another order
    if did % 8 == 7:
        d["via_macro"] = True               # declared through a macro_rules! helper (print_enum / wrap_in_macro)
    d.update(extra)
    return d


# --------------------------------------------------------------------------- printing
def _field_ty(f):
    return TYPES[f["ty"]][0]


def variant_attr_items(v):
    """the list of items inside #[strum(...)] for a variant, in a fixed order"""
    it = []
    lf = v.get("litform", 0)
    for s in v["ser"]:
        it.append("serialize = %s" % lit_str(s, lf))
    if v["ts"]:
        it.append("to_string = %s" % lit_str(v["ts"][0], lf))
    if v["dis"]:
        it.append("disabled")
    if v["def"]:
        it.append("default")
    if v["transp"]:
        it.append("transparent")
    if v.get("dwith"):
        it.append('default_with = "%s"' % v["dwith"])
    if v["aci"] == 1:
        it.append("ascii_case_insensitive = true" if v.get("acif") else "ascii_case_insensitive")
    elif v["aci"] == 0:
        it.append("ascii_case_insensitive = false")
    if v["msg"]:
        it.append("message = %s" % lit_str(v["msg"][0], lf))
    if v["dmsg"]:
        it.append("detailed_message = %s" % lit_str(v["dmsg"][0], lf))
    groups = {}
    for p in v["props"]:
        groups.setdefault(p["grp"], []).append(p)
    for g in sorted(groups):
        ps = []
        for p in groups[g]:
            key = p.get("keysrc") or uncp(p["key"])
            if p["ty"] == "s":
                ps.append("%s = %s" % (key, rs_str(p["val"])))
            else:
                ps.append("%s = %s" % (key, p.get("src") or uncp(p["val"])))
        it.append("props(%s)" % ", ".join(ps))
    # optional reordering (v["order"] = seed): the order in which a user writes the items must not matter, except that
    # serialize literals keep their relative order (it is part of the definition) and props groups keep theirs
    if v.get("order"):
        import random as _r
        rng = _r.Random(v["order"])
        fixed = [x for x in it if x.startswith("serialize =") or x.startswith("props(")]
        free = [x for x in it if not (x.startswith("serialize =") or x.startswith("props("))]
        rng.shuffle(free)
        out = list(fixed)
        for x in free:
            out.insert(rng.randrange(len(out) + 1), x)
        it = out
    return it


def print_variant(v, split, with_strum=True, indent="    "):
    docs = ["%s#[doc = %s]" % (indent, lit_str(d, v.get("litform", 0))) for d in v["docs"]]      # explicit doc attributes may be raw strings / escapes too
    # #[doc(..)] LIST attributes (hidden, alias) are not documentation text; they may stand before / between / after the doc lines
    for pos, x in v.get("docattrs", []):
        docs.insert(min(pos, len(docs)), indent + x)
    strum = []
    items = variant_attr_items(v) if with_strum else []
    if items:
        if split:
            strum = ["%s#[strum(%s)]" % (indent, i) for i in items]
        else:
            strum = ["%s#[strum(%s)]" % (indent, ", ".join(items))]
    others = [indent + x for x in v.get("xattrs", [])]
    if v.get("raw"):
        # a hand-laid-out attribute block (the record still says what it means: dis, ser, ...)
        docs, strum, others = [], [indent + x for x in v["raw"]], []
    if v.get("order") and split and len(strum) >= 2 and (docs or others):
        # non-strum attributes (doc comments, #[allow], ...) may stand BETWEEN two #[strum(..)] attributes;
        # doc lines keep their relative order, strum attributes keep theirs
        import random as _r
        rng = _r.Random(v["order"] * 7 + 1)
        lines = list(strum)
        pos = sorted(rng.randrange(len(lines) + 1) for _ in docs)
        for k, (p, d) in enumerate(zip(pos, docs)):
            lines.insert(p + k, d)
        for x in others:
            lines.insert(rng.randrange(len(lines) + 1), x)
    else:
        lines = docs + strum + others
    ident = vid(v)
    if v["kind"] == "unit":
        body = ident
    elif v["kind"] == "tuple":
        body = "%s(%s%s)" % (ident, ", ".join(_field_ty(f) for f in v["fields"]), "," if v.get("tcomma") and v["fields"] else "")
    else:
        fs = []
        for f in v["fields"]:
            if f.get("scope"):
                continue        # not a field: a constant of the surrounding scope that a placeholder captures (C17)
            a = '#[strum(default_with = "%s")] ' % f["dw"] if f.get("dw") else ""
            fs.append("%s%s: %s" % (a, f["name"], _field_ty(f)))
        body = "%s { %s }" % (ident, ", ".join(fs))
    if v["disc"] or v.get("discx"):
        body += " = %s" % (v.get("discx") or str(v["disc"][0]))
    lines.append(indent + body + ",")
    return lines


def enum_attr_items(E, use=("style", "prefix", "aci", "phf", "perr", "cis", "crate")):
    it = []
    if "style" in use and E["style"] != "none":
        it.append('serialize_all = "%s"' % E["style"])
    if "prefix" in use and E["prefix"]:
        it.append("prefix = %s" % rs_str(E["prefix"][0]))
    if "aci" in use and E["aci"]:
        it.append("ascii_case_insensitive")
    if "phf" in use and E["phf"]:
        it.append("use_phf")
    if "perr" in use and E["perr"]:
        it.append("parse_err_ty = UserErr")
        it.append("parse_err_fn = user_err")
    if "cis" in use and E["cis"]:
        it.append("const_into_str")
    if "crate" in use and E.get("crate", "none") != "none":
        it.append('crate = "%s"' % E["crate"])
    if E.get("eorder"):
        import random as _r
        _r.Random(E["eorder"]).shuffle(it)
    return it


def print_enum(E, derives, std_derives=("Debug", "Clone", "PartialEq"), strum_path="strum", vis="pub",
               extra_attrs=(), use=("style", "prefix", "aci", "phf", "perr", "cis", "crate")):
    g = GENERICS[E["generics"]]
    lines = []
    ds = list(std_derives) + ["%s::%s" % (strum_path, d) for d in derives]
    lines.append("#[derive(%s)]" % ", ".join(ds))
    for r in E.get("reprs", ([E["repr"]] if E["repr"] != "none" else [])):
        lines.append("#[repr(%s)]" % r)
    items = enum_attr_items(E, use)
    if items:
        if E.get("split"):
            for i in items:
                lines.append("#[strum(%s)]" % i)
        else:
            lines.append("#[strum(%s)]" % ", ".join(items))
    for x in extra_attrs:
        lines.append(x)
    for x in E.get("xattrs", []):
        lines.append(x)
    lines.append("%s enum %s%s%s {" % (vis, E["name"], g["decl"], g.get("where", "")))
    mx = E.get("macro_expr") or None
    for k, v in enumerate(E["variants"]):
        if mx and mx["k"] == k:
            # an explicit discriminant assembled by the macro_rules! helper from an expression fragment
            v = dict(v, discx=MACRO_EXPR_FORMS[mx.get("form", 0)] % mx["r"])
        lines += print_variant(v, E.get("split"))
    lines.append("}")
    text = "\n".join(lines)
    if E.get("via_macro") or mx:
        text = wrap_in_macro(text, E["name"], exprs=[mx["a"]] if mx else [])
    return text


# how the fragment `$e0` (an expression such as `3 + 1`) sits in the discriminant: at the top level, inside parentheses,
# inside a cast's operand
MACRO_EXPR_FORMS = ["$e0 * 2 + %d", "($e0 * 2) + %d", "(($e0) * 2 + %d) as _"]


def wrap_in_macro(text, name, exprs=()):
    """the same item, declared through a macro_rules! helper; paths the user passes to strum (parse_err_fn / parse_err_ty) arrive
    as macro arguments, i.e. with the caller's syntax context"""
    import re
    # the enum's own name and its integer repr arrive from the caller as well (`$name:ident`, `$repr:ty`)
    args, params = [name], ["$name:ident"]
    text = re.sub(r"\benum %s\b" % re.escape(name), "enum $name", text, count=1)
    m = re.search(r"#\[repr\((u8|i8|u16|i16|u32|i32|u64|i64|usize|isize)\)\]", text)
    if m:
        text = text.replace(m.group(0), "#[repr($repr)]", 1)
        params.append("$repr:ty")
        args.append(m.group(1))
    for kw, frag in (("parse_err_fn", "path"), ("parse_err_ty", "ty")):
        m = re.search(kw + r" = ([^,\]\)]+(?:<[^>]*>)?)", text)
        if m:
            var = "$" + kw
            text = text.replace(m.group(0), "%s = %s" % (kw, var))
            params.append("%s:%s" % (var, frag))
            args.append(m.group(1).strip())
    for k, ex in enumerate(exprs):
        params.append("$e%d:expr" % k)
        args.append(ex)
    body = "\n".join("        " + l for l in text.splitlines())
    return ("macro_rules! declare_%s {\n    (%s) => {\n%s\n    };\n}\ndeclare_%s!(%s);"
            % (name.lower(), ", ".join(params), body, name.lower(), ", ".join(args)))


OPTION_TYPES = ("opt", "optstr", "optT", "optboxT")


def in_user_scope(decl, E, force=False, exports=()):
    """the same declaration inside a module that defines its own types called `Option` and `Result` (type namespace only; the
    prelude's Some / None / Ok / Err stay what they are): whatever the derive writes must not pick them up.  Only for enums whose own
    fields do not mention the prelude's Option."""
    if any(f["ty"] in OPTION_TYPES or f["ty"] in ("boxself", "mutref") for v in E["variants"] for f in v["fields"]) or E.get("via_macro") or E.get("macro_expr") \
            or E.get("phf") or E.get("perr") or E.get("glob") or E.get("extra_items") or E.get("in_fn") or "twin_of" in E or E.get("no_user_scope"):
        return decl
    if not force and E["id"] % 5 != 2:
        return decl
    return ("pub mod user_scope {\n    use vsupport::*;\n    #[derive(Debug, Clone, PartialEq, Default)]\n    pub struct Option(pub u8);\n"
            "    pub struct Result;\n%s\n}\npub use user_scope::{%s};" % ("\n".join("    " + l for l in decl.splitlines()), ", ".join([E["name"]] + [E["name"] + x for x in exports])))


def inst(E):
    return E["name"] + GENERICS[E["generics"]]["inst"]


def turbofish(E):
    i = GENERICS[E["generics"]]["inst"]
    if E["generics"] == "lt":
        i = ""            # lifetime arguments are not allowed on a variant path
    return E["name"] + ("::" + i if i else "")


def pattern(E, v, bind=None):
    """match pattern for a variant; bind = list of binding names or None for wildcard"""
    ident = "%s::%s" % (E["name"], vid(v))
    if v["kind"] == "unit":
        return ident
    if v["kind"] == "tuple":
        if bind is None:
            return ident + "(..)"
        return "%s(%s)" % (ident, ", ".join(bind))
    if bind is None:
        return ident + " { .. }"
    return "%s { %s }" % (ident, ", ".join("%s: %s" % (f["name"], b) for f, b in zip(v["fields"], bind)))


def _fval(E, f, which):
    t = TYPES[f["ty"]]
    if f["ty"] == "T":
        tp = GENERICS[E["generics"]]["tparam"]
        return ["0%s" % tp, "41%s" % tp, "42%s" % tp][which]
    if f["ty"] == "arr":
        n = "3" if E["generics"] in ("const", "constdef") else "2"
        return ["Arr::<%s>::default()" % n, "Arr::<%s>::filled(5)" % n, "Arr::<%s>::filled(6)" % n][which]
    return t[1 + which]


def ctor(E, v, which=0, vals=None):
    """constructor expression; which: 0 default payload, 1/2 non-default payloads; vals overrides"""
    ident = "%s::%s" % (turbofish(E), vid(v))
    if v["kind"] == "unit":
        return ident
    xs = vals if vals is not None else [_fval(E, f, which) for f in v["fields"]]
    if v["kind"] == "tuple":
        return "%s(%s)" % (ident, ", ".join(xs))
    return "%s { %s }" % (ident, ", ".join("%s: %s" % (f["name"], x) for f, x in zip(v["fields"], xs) if not f.get("scope")))


def expected_payload(E, v, honour_default_with=True):
    """constructor arguments a derive that fills fields with Default (EnumIter, FromRepr) or Default / default_with
    (EnumString) must produce"""
    xs = []
    for k, f in enumerate(v["fields"]):
        if not honour_default_with:
            xs.append(_fval(E, f, 0))
        elif v.get("dwith") and v["kind"] == "tuple":
            xs.append("%s()" % v["dwith"])
        elif f.get("dw"):
            xs.append("%s()" % f["dw"])
        else:
            xs.append(_fval(E, f, 0))
    return xs


def impl_header(E):
    g = GENERICS[E["generics"]]
    tg = {"none": "", "ty": "<T>", "tywhere": "<T>", "lt": "<'a>", "const": "<N>", "tyconst": "<T, N>", "tydef": "<T>", "constdef": "<N>", "tydbg": "<T>", "tynd": "<T>", "tyq": "<T>"}[E["generics"]]
    return "impl%s %s%s%s" % (g.get("impl_decl", g["decl"]), E["name"], tg, g.get("where", ""))


DECOYS = {
    "EnumMessage": ['pub fn get_message(&self) -> Option<&\'static str> { Some("inherent decoy") }',
                    'pub fn get_detailed_message(&self) -> Option<&\'static str> { Some("inherent decoy") }',
                    'pub fn get_documentation(&self) -> Option<&\'static str> { Some("inherent decoy") }',
                    'pub fn get_serializations(&self) -> &\'static [&\'static str] { &["inherent decoy"] }'],
    "EnumProperty": ['pub fn get_str(&self, _p: &str) -> Option<&\'static str> { Some("inherent decoy") }',
                     'pub fn get_int(&self, _p: &str) -> Option<i64> { Some(-77) }',
                     'pub fn get_bool(&self, _p: &str) -> Option<bool> { Some(true) }'],
}


DECOYS.update({
    # other signatures than the trait functions: picking one of these up is a compile error
    "EnumString": ['pub fn from_str(_a: u8, _b: u8) -> u8 { 0 }', 'pub fn try_from(_a: u8, _b: u8) -> u8 { 0 }'],
    "Display": ['pub fn fmt(&self, _a: u8) -> u8 { 0 }', 'pub fn to_string(&self, _a: u8) -> u8 { 0 }'],
    "AsRefStr": ['pub fn as_ref(&self, _a: u8) -> u8 { 0 }'],
    "IntoStaticStr": ['pub fn into(&self, _a: u8) -> u8 { 0 }', 'pub fn from(_a: u8, _b: u8) -> u8 { 0 }'],
    "VariantNames": ['pub const VARIANTS: u8 = 0;'],
    "EnumIter": ['pub fn iter(_a: u8) -> u8 { 0 }', 'pub fn get(&self, _a: u8, _b: u8) -> u8 { 0 }'],
    "EnumCount": ['pub const COUNT: u8 = 0;'],
    "EnumDiscriminants": ['pub fn into(&self, _a: u8) -> u8 { 0 }', 'pub fn discriminant(&self, _a: u8) -> u8 { 0 }', 'pub fn from(_a: u8, _b: u8) -> u8 { 0 }'],
    "EnumTable": ['pub fn index(&self, _a: u8, _b: u8) -> u8 { 0 }'],
})
# a helper trait of the caller's crate that is implemented for every type and has a method named like a helper of a generated type
BLANKET_TRAIT = ("pub trait NthRemaining: Sized { fn get(self, _i: usize) -> Option<u8> { None } }\n"
                 "impl<T> NthRemaining for T {}\n")


def decoys(E, derives):
    """decoy_impl for several derives at once (names that occur twice are kept once)"""
    seen, ms = set(), []
    for d in derives:
        for m in DECOYS.get(d, []):
            name = m.split("(")[0].split(":")[0].split()[-1]
            if name not in seen:
                seen.add(name)
                ms.append(m)
    if not ms:
        return ""
    return "%s {\n%s\n}\n" % (impl_header(E), "\n".join("    " + m for m in ms))


def decoy_impl(E, derive):
    """inherent methods with the names of the derive's trait methods and other results: generated code that reaches a trait
    method through method-call syntax on the user's type would pick these up; drivers therefore call the traits by path"""
    return "%s {\n%s\n}\n" % (impl_header(E), "\n".join("    " + m for m in DECOYS[derive]))


def helper_impl(E):
    """impl block with decl_index / payload_ok that does not involve strum"""
    g = GENERICS[E["generics"]]
    n = E["name"]
    decl = g["decl"]
    # type generics without bounds
    tg = {"none": "", "ty": "<T>", "tywhere": "<T>", "lt": "<'a>", "const": "<N>", "tyconst": "<T, N>", "tydef": "<T>", "constdef": "<N>", "tydbg": "<T>", "tynd": "<T>", "tyq": "<T>"}[E["generics"]]
    lines = ["impl%s %s%s%s {" % (g.get("impl_decl", decl), n, tg, g.get("where", ""))]
    lines.append("    pub fn decl_index(&self) -> usize { match self {")
    for i, v in enumerate(E["variants"]):
        lines.append("        %s => %d," % (pattern(E, v), i + 1))
    if not E["variants"]:
        lines.append("        _ => 0,")
    lines.append("    } }")
    lines.append("}")
    return "\n".join(lines)


def payload_ok_fn(E, honour_default_with=True):
    """free function over the instantiated type: are all fields what Default/default_with give?"""
    lines = ["pub fn payload_ok(x: &%s) -> bool { match x {" % inst(E)]
    for v in E["variants"]:
        if v["kind"] == "unit":
            lines.append("    %s => true," % pattern(E, v))
        else:
            names = ["b%d" % k for k in range(len(v["fields"]))]
            exp = expected_payload(E, v, honour_default_with)
            conds = " && ".join("*%s == %s" % (b, e) for b, e in zip(names, exp)) or "true"
            lines.append("    %s => %s," % (pattern(E, v, names), conds))
    if not E["variants"]:
        lines.append("    _ => true,")
    lines.append("} }")
    return "\n".join(lines)


def dumps(E):
    return json.dumps(E, separators=(",", ":"))
