"""Common body of the checks that observe EnumString through batched `parse` events (C01, C11, C12, C16, C18)."""
import random
from concurrent.futures import ThreadPoolExecutor
from . import core, pipe, strcorpus as SC, strgen as SG, defs as D
from .core import uncp


def canary(grp):
    for e in grp:
        if e.get("op") == "parse" and e["res"]:
            e["res"][0]["i"] += 1
            return True
    return False


def describe(E):
    return dict(id=E["id"], style=E["style"], aci=E["aci"], phf=E["phf"], perr=E["perr"],
                variants=[dict(id=uncp(v["id"]), kind=v["kind"], ser=[uncp(s) for s in v["ser"]],
                               ts=[uncp(s) for s in v["ts"]], dis=v["dis"], default=v["def"], aci=v["aci"]) for v in E["variants"]])


def run_parse_check(prop, pkg, rep, cands, rng, seed, cap, flips, model_fn, shard=1_500_000, features=("derive",),
                    in_domain=lambda f: f["wf"] and f["no"], what="EnumString result differs from ParseSpec",
                    module_fn=None, mismatch_key=None, extra_events=None):
    module_fn = module_fn or SG.parse_module
    with ThreadPoolExecutor(max_workers=1) as ex:
        mc = ex.submit(model_fn)
        facts = pipe.domain_pass(cands, prop)
        defs = [E for E in cands if in_domain(facts[E["id"]])]
        core.log("[%s] %d candidates, %d in the documented domain" % (prop, len(cands), len(defs)))
        by_id = {E["id"]: E for E in defs}
        inputs = {E["id"]: SC.gen_inputs(E, facts[E["id"]], rng, cap, flips) for E in defs}
        # twins (same "twin_of") share the inputs of the original
        for E in defs:
            if E.get("twin_of") in inputs:
                inputs[E["id"]] = inputs[E["twin_of"]]
        files = {E["id"]: module_fn(E) for E in defs}
        exe, failed = pipe.build_corpus(pkg, files, strum_features=features)
        for did, msgs in failed.items():
            E = by_id[did]
            key = dict(kind="compile_error", msg=classify(msgs))
            if mismatch_key:
                key.update(mismatch_key(E, facts[did], None))
            rep.violation(key, "in-domain definition does not compile: %s" % msgs[0][:200],
                          dict(definition=E, errors=msgs, files={"def.rs": files[did]}))
        ok_ids = [i for i in by_id if i not in failed]
        evs = pipe.run_driver(exe, prop, {i: inputs[i] for i in ok_ids}, seed)
        groups = pipe.group_by_def(by_id, evs)
        mism = pipe.validate_groups("Trace_Str", groups, prop, rep, shard_bytes=shard, canary=canary)
        for ev, d, text in mism:
            key = dict(kind="parse_mismatch")
            if mismatch_key and d:
                key.update(mismatch_key(d, facts.get(d["id"]), text))
            rep.violation(key, what + ": " + text[:300],
                          dict(definition=d, event_op=ev["op"], tlc=text, files={"def.rs": files.get(d["id"], "") if d else ""}))
        name, res, consts = mc.result()
        rep.add_model(name, res, consts)
    pe = [e for e in evs if e["op"] == "parse"]
    rep.cov["programs"] = len(ok_ids)
    rep.cov["evaluations"] = 2 * sum(len(e["ins"]) for e in pe)
    rep.cov["distinct_nontrivial"] = sum(len(set(inputs[i])) for i in ok_ids if by_id[i]["variants"])
    rep.cov["samples"] = [dict(definition=describe(by_id[i]), inputs=inputs[i][:8]) for i in ok_ids[:2]]
    return dict(defs=defs, by_id=by_id, facts=facts, inputs=inputs, events=evs, failed=failed, ok_ids=ok_ids)


def classify(msgs):
    import re
    return re.sub(r"`[^`]*`", "`_`", msgs[0])[:80]
