"""Shared machinery: paths, TLC runners (model checking / trace validation / evaluation),
cargo + direct rustc runners, evidence and known-findings handling, violation reporting."""
import json, os, re, shutil, subprocess, sys, time, hashlib
from concurrent.futures import ThreadPoolExecutor

VERIF = os.path.dirname(os.path.dirname(os.path.dirname(os.path.abspath(__file__))))
REPO = os.environ.get("VERIF_REPO", "/repo")
SPEC = os.path.join(VERIF, "spec")
HARNESS = os.path.join(VERIF, "harness")
WORK = os.path.join(VERIF, "work")
EVID = os.path.join(VERIF, "evidence")
JAR = "/opt/veriftools/tla/tla2tools.jar:/opt/veriftools/tla/CommunityModules-deps.jar"
NCPU = os.cpu_count() or 4


class ToolError(Exception):
    """Anything that is the machinery's fault (exit 2), never a VIOLATION."""


def log(*a):
    print(*a, file=sys.stderr, flush=True)


def cp(s):
    """string -> list of code points"""
    return [ord(c) for c in s]


def uncp(a):
    return "".join(chr(c) for c in a)


def only_defs():
    """replay mode: restrict a check to the definitions / instances named in VERIF_ONLY_DEFS (comma separated ids)"""
    v = os.environ.get("VERIF_ONLY_DEFS", "").strip()
    return {int(x) for x in v.split(",") if x} if v else None


def workdir(name, clean=True):
    d = os.path.join(WORK, name)
    if clean and os.path.isdir(d):
        shutil.rmtree(d)
    os.makedirs(d, exist_ok=True)
    return d


# --------------------------------------------------------------------------- TLC
def _java(extra_props=(), xmx="6g", xss="1g"):
    return ["java", "-XX:+UseParallelGC", "-XX:ParallelGCThreads=4", "-Xss" + xss, "-Xmx" + xmx,
            *extra_props, "-cp", JAR, "tlc2.TLC"]


_TLC_NOISE = re.compile(r"^(CostModel lookup failed|Parsing file|Semantic processing|Linting of module)")


def _clean(out):
    return "\n".join(l for l in out.splitlines() if not _TLC_NOISE.match(l))


def write_cfg(path, spec="Spec", constants=None, invariants=(), properties=(), postcondition=None,
              constraint=None, view=None, init=None, next_=None):
    lines = []
    if init:
        lines += ["INIT " + init, "NEXT " + next_]
    else:
        lines.append("SPECIFICATION " + spec)
    for k, v in (constants or {}).items():
        if isinstance(v, bool):
            v = "TRUE" if v else "FALSE"
        elif isinstance(v, str) and not v.startswith("{"):
            v = '"%s"' % v
        lines.append("CONSTANT %s = %s" % (k, v))
    for i in invariants:
        lines.append("INVARIANT " + i)
    for p in properties:
        lines.append("PROPERTY " + p)
    if postcondition:
        lines.append("POSTCONDITION " + postcondition)
    if constraint:
        lines.append("CONSTRAINT " + constraint)
    if view:
        lines.append("VIEW " + view)
    lines.append("CHECK_DEADLOCK FALSE")
    with open(path, "w") as f:
        f.write("\n".join(lines) + "\n")


def tlc_mc(module, cfg, tag, workers=8, timeout=1800, xmx="8g", expect_violation=False, extra=()):
    """Run TLC in model-checking mode.  Returns dict(states, distinct, depth, ok, out).
    A property violation of the MODEL is a specification error -> ToolError unless expect_violation."""
    # Model checking concerns the specification only, not the tree under test.  The registered checks always run it; the private
    # lanes used for regressions over seeded changes and for refactor controls (bin/lane) may reuse the result of an identical run
    # (same module, same configuration, same specification files) recorded by a registered run: VERIF_MC_CACHE names the directory.
    import hashlib
    h = hashlib.sha1()
    h.update(module.encode()); h.update(open(cfg, "rb").read()); h.update(("x" if expect_violation else "").encode())
    for fn in sorted(os.listdir(SPEC)):
        if fn.endswith(".tla"):
            h.update(open(os.path.join(SPEC, fn), "rb").read())
    ckey = h.hexdigest()
    cdir = os.environ.get("VERIF_MC_CACHE")
    if cdir and os.path.exists(os.path.join(cdir, ckey + ".json")):
        res = json.load(open(os.path.join(cdir, ckey + ".json")))
        res["reused"] = True
        return res
    meta = workdir("tlc_" + tag)
    cmd = _java(xmx=xmx, xss="512m") + ["-workers", str(workers), "-maxSetSize", "50000000",
                                       "-metadir", meta, "-cleanup", "-noGenerateSpecTE", "-coverage", "1",
                                       *extra, "-config", cfg, module]
    t0 = time.time()
    try:
        p = subprocess.run(cmd, cwd=SPEC, capture_output=True, text=True, timeout=timeout)
    except subprocess.TimeoutExpired:
        raise ToolError("TLC timeout on %s" % module)
    finally:
        shutil.rmtree(meta, ignore_errors=True)
    out = _clean(p.stdout + p.stderr)
    m = re.search(r"(\d+) states generated, (\d+) distinct states found", out)
    dm = re.search(r"depth of the complete state graph search is (\d+)", out)
    ok = "Model checking completed. No error has been found." in out
    res = dict(states=int(m.group(2)) if m else 0, transitions=int(m.group(1)) if m else 0,
               depth=int(dm.group(1)) if dm else 0, ok=ok, out=out, wall=time.time() - t0)
    # per-action coverage: "<Action line ..>: distinct:generated"
    cov = {}
    for am in re.finditer(r"^<(\w+) line \d+, col \d+ to line \d+, col \d+ of module (\w+)(?: \([\d ]+\))?>: (\d+):(\d+)", out, re.M):
        cov[am.group(1)] = cov.get(am.group(1), 0) + int(am.group(4))
    res["coverage"] = cov
    if not ok and not expect_violation:
        raise ToolError("model checking of %s failed (specification error):\n%s" % (module, out[-3000:]))
    if ok:
        try:
            os.makedirs(os.path.join(WORK, "mc_cache"), exist_ok=True)
            json.dump(dict(res, out=res["out"][-4000:]), open(os.path.join(WORK, "mc_cache", ckey + ".json"), "w"))
        except OSError:
            pass
    return res


def apalache_inductive(module_dir, module, init="Init", ind_init="IndInit", inv="IndInv", timeout=900):
    """Apalache: Init => Inv (length 0) and Inv /\\ Next => Inv' (length 1, from IndInit).  Returns dict(ok, wall, out)."""
    t0 = time.time()
    outdir = workdir("apalache_" + module)
    res = []
    for args in (["--init=" + init, "--inv=" + inv, "--length=0"], ["--init=" + ind_init, "--inv=" + inv, "--length=1"]):
        cmd = ["apalache-mc", "check", "--out-dir=" + outdir, "--run-dir=" + os.path.join(outdir, "run")] + args + [module + ".tla"]
        try:
            p = subprocess.run(cmd, cwd=module_dir, capture_output=True, text=True, timeout=timeout)
        except subprocess.TimeoutExpired:
            raise ToolError("apalache timeout on %s" % module)
        res.append("EXITCODE: OK" in p.stdout)
        if not res[-1]:
            raise ToolError("apalache: %s %s failed:\n%s" % (module, " ".join(args), p.stdout[-2000:]))
    shutil.rmtree(outdir, ignore_errors=True)
    return dict(ok=all(res), wall=time.time() - t0)


def tlc_eval(module, cfg, tag, env=None, timeout=900, xmx="6g"):
    """Run a one-shot TLC evaluation module (ASSUME / Init only).  Returns cleaned output."""
    meta = workdir("tlc_" + tag)
    cmd = _java(xmx=xmx) + ["-workers", "1", "-metadir", meta, "-cleanup", "-noGenerateSpecTE",
                            "-config", cfg, module]
    e = dict(os.environ)
    e.update(env or {})
    try:
        p = subprocess.run(cmd, cwd=SPEC, capture_output=True, text=True, timeout=timeout, env=e)
    except subprocess.TimeoutExpired:
        raise ToolError("TLC timeout on %s" % module)
    finally:
        shutil.rmtree(meta, ignore_errors=True)
    return _clean(p.stdout + p.stderr)


COMMON_DIMENSIONS = '; every corpus also varies: attribute order and splitting, non-strum and #[doc(..)] attributes between strum ones, literal source forms, keyword-like values and property keys, raw / lower-case / generated-name-like / Latin-1 variant identifiers, type names shared between modules, declaration through macro_rules! (name, repr, paths, discriminant fragments as arguments), inherent decoys and a blanket helper trait next to the derive, payloads of zero-sized / array / tuple / Option / decoy types and (on disabled variants) a type whose Default panics'

_MIS = re.compile(r'^"MISMATCH@(\d+)@(.*)"$')
_NOTE = re.compile(r'^"NOTE@(\d+)@(.*)"$')


def tlc_trace_one(module, cfg, trace_path, tag, timeout=1800, xmx="4g", env=None):
    """Validate one NDJSON trace with a Trace_* spec.  Returns dict(ok, consumed, n, mismatches[(line, text)])."""
    meta = workdir("tlc_" + tag)
    e = dict(os.environ)
    e["TRACE"] = trace_path
    e.update(env or {})
    cmd = _java(extra_props=["-Dtlc2.tool.queue.IStateQueue=StateDeque"], xmx=xmx) + [
        "-workers", "1", "-metadir", meta, "-cleanup", "-noGenerateSpecTE", "-config", cfg, module]
    t0 = time.time()
    try:
        p = subprocess.run(cmd, cwd=SPEC, capture_output=True, text=True, timeout=timeout, env=e)
    except subprocess.TimeoutExpired:
        raise ToolError("TLC timeout validating %s" % trace_path)
    finally:
        shutil.rmtree(meta, ignore_errors=True)
    out = _clean(p.stdout + p.stderr)
    mism = []
    notes = []
    lines = out.splitlines()
    i = 0
    while i < len(lines):
        mn = _NOTE.match(lines[i])
        if mn:
            j = i + 1
            detail = []
            while j < len(lines) and lines[j].strip() != '"ENDNOTE"':
                detail.append(lines[j])
                j += 1
            notes.append((int(mn.group(1)), mn.group(2) + ": " + " ".join(x.strip() for x in detail)))
            i = j + 1
            continue
        m = _MIS.match(lines[i])
        if m:
            j = i + 1
            detail = []
            while j < len(lines) and lines[j].strip() != '"ENDMISMATCH"':
                detail.append(lines[j])
                j += 1
            mism.append((int(m.group(1)), m.group(2) + ": " + " ".join(x.strip() for x in detail)))
            i = j
        i += 1
    if out.count("MISMATCH@") != len(mism):
        raise ToolError("could not parse every MISMATCH report of TLC:\n" + out[-3000:])
    n = sum(1 for _ in open(trace_path))
    completed = "Model checking completed. No error has been found." in out
    dm = re.search(r"depth of the complete state graph search is (\d+)", out)
    depth = int(dm.group(1)) if dm else 0
    consumed = depth - 1
    if not completed or consumed != n:
        # the trace spec itself failed (evaluation error, postcondition): specification/tool error
        if not mism:
            raise ToolError("trace validation of %s did not complete (consumed %d of %d):\n%s"
                            % (trace_path, consumed, n, out[-4000:]))
    return dict(ok=completed and consumed == n and not mism, consumed=consumed, n=n, mismatches=mism, notes=notes,
                out=out, wall=time.time() - t0)


def tlc_trace(module, cfg, shard_paths, tag, par=6, **kw):
    """Validate several trace shards in parallel JVMs."""
    with ThreadPoolExecutor(max_workers=par) as ex:
        futs = [ex.submit(tlc_trace_one, module, cfg, p, "%s_%d" % (tag, i), **kw)
                for i, p in enumerate(shard_paths)]
        return [f.result() for f in futs]


def write_shards(events_by_group, outdir, prefix, max_bytes=12_000_000):
    """events_by_group: iterable of lists of JSON-serialisable events that must stay together
    (a definition event followed by the events about it).  Returns shard paths."""
    paths, cur, size, k = [], None, 0, 0
    for grp in events_by_group:
        txt = "".join(json.dumps(e, separators=(",", ":")) + "\n" for e in grp)
        if cur is None or size + len(txt) > max_bytes:
            if cur:
                cur.close()
            k += 1
            p = os.path.join(outdir, "%s_%03d.ndjson" % (prefix, k))
            paths.append(p)
            cur = open(p, "w")
            size = 0
        cur.write(txt)
        size += len(txt)
    if cur:
        cur.close()
    return paths


# --------------------------------------------------------------------------- cargo / rustc
def cargo_env():
    e = dict(os.environ)
    e["CARGO_NET_OFFLINE"] = "true"
    e.pop("STRUM_DEBUG", None)
    e.pop("RUSTFLAGS", None)
    return e


def ensure_lock():
    lock = os.path.join(HARNESS, "Cargo.lock")
    if not os.path.exists(lock):
        shutil.copy(os.path.join(REPO, "Cargo.lock"), lock)


def cargo_build(pkg, release=False, timeout=3600, env=None, bins=None):
    """Build a harness package.  Returns (ok, diagnostics[list of rustc json messages], raw stderr)."""
    ensure_lock()
    cmd = ["cargo", "build", "--offline", "-p", pkg, "--message-format=json"]
    if release:
        cmd.append("--release")
    e = cargo_env()
    e.update(env or {})
    p = subprocess.run(cmd, cwd=HARNESS, capture_output=True, text=True, timeout=timeout, env=e)
    diags, exe = [], {}
    for l in p.stdout.splitlines():
        try:
            m = json.loads(l)
        except ValueError:
            continue
        if m.get("reason") == "compiler-message":
            diags.append(m["message"])
        elif m.get("reason") == "compiler-artifact" and m.get("executable"):
            exe[m["target"]["name"]] = m["executable"]
    return p.returncode == 0, diags, p.stderr, exe


def run_bin(exe, args, timeout=3600, env=None):
    e = cargo_env()
    e.update(env or {})
    p = subprocess.run([exe] + list(args), capture_output=True, text=True, timeout=timeout, env=e)
    return p.returncode, p.stdout, p.stderr


def strum_rlibs(features=("derive",), release=False, no_default=False):
    """Build strum (+strum_macros) through a tiny harness package and return the --extern arguments
    for direct rustc invocations: (externs[list], deps_dir)."""
    name = "externs_" + ("nd_" if no_default else "") + "_".join(sorted(features))
    d = os.path.join(HARNESS, "gen", name)
    os.makedirs(os.path.join(d, "src"), exist_ok=True)
    feats = ", ".join('"%s"' % f for f in features)
    with open(os.path.join(d, "Cargo.toml"), "w") as f:
        f.write('[package]\nname = "%s"\nversion = "0.0.0"\nedition = "2021"\n\n[lib]\npath = "src/lib.rs"\n\n'
                '[dependencies]\nstrum = { path = "%s/strum", default-features = %s, features = [%s] }\n'
                % (name, REPO, "false" if no_default else "true", feats))
    with open(os.path.join(d, "src/lib.rs"), "w") as f:
        f.write("#![no_std]\n")
    ensure_lock()
    cmd = ["cargo", "build", "--offline", "-p", name, "--message-format=json"] + (["--release"] if release else [])
    p = subprocess.run(cmd, cwd=HARNESS, capture_output=True, text=True, env=cargo_env())
    if p.returncode != 0:
        raise BuildFailed("building strum itself failed", p.stderr)
    rlib, deps = None, None
    for l in p.stdout.splitlines():
        try:
            m = json.loads(l)
        except ValueError:
            continue
        if m.get("reason") == "compiler-artifact" and m["target"]["name"] == "strum":
            for fn in m["filenames"]:
                if fn.endswith(".rlib"):
                    rlib = fn
                    deps = os.path.dirname(fn)
    if not rlib:
        raise ToolError("could not locate strum rlib")
    return rlib, deps


class BuildFailed(Exception):
    def __init__(self, msg, stderr):
        super().__init__(msg)
        self.stderr = stderr


def rustc_check(src, rlib, deps, crate_type="lib", extra=(), timeout=120, extern_name="strum", env=None):
    """Compile one file directly (metadata only).  Returns (ok, diagnostics)."""
    out = src + ".rmeta"
    cmd = ["rustc", "--edition", "2021", "--crate-type", crate_type, "--emit=metadata", "-o", out,
           "--error-format=json", "-Awarnings", "--extern", "%s=%s" % (extern_name, rlib), "-L", "dependency=" + deps,
           *extra, src]
    e = cargo_env()
    e.update(env or {})
    p = subprocess.run(cmd, capture_output=True, text=True, timeout=timeout, env=e)
    diags = []
    for l in p.stderr.splitlines():
        try:
            diags.append(json.loads(l))
        except ValueError:
            pass
    try:
        os.remove(out)
    except OSError:
        pass
    return p.returncode == 0, diags, p.stdout


def pmap(fn, items, par=None):
    with ThreadPoolExecutor(max_workers=par or NCPU) as ex:
        return list(ex.map(fn, items))


# --------------------------------------------------------------------------- findings / evidence / reporting
def load_known():
    p = os.path.join(VERIF, "known_findings.json")
    if not os.path.exists(p):
        return []
    return json.load(open(p))["findings"]


class Report:
    """Collects what a check did; writes evidence; prints VIOLATION / KNOWN-FINDING lines; gives the exit code."""

    def __init__(self, prop, tier, seed):
        self.prop, self.tier, self.seed = prop, tier, seed
        self.t0 = time.time()
        self.cov = dict(states=0, transitions=0, traces_validated_against_impl=0, programs=0, evaluations=0,
                        distinct_nontrivial=0, samples=[], rule="", exhaustive=False, model_runs=[])
        self.assumptions = []
        self.violations = []     # (key, what, replay_payload)
        self.known_hits = []
        self.known = [k for k in load_known() if k["property"] == prop and k.get("status") == "known"]

    def add_model(self, name, res, constants=None):
        self.cov["states"] += res["states"]
        self.cov["transitions"] += res["transitions"]
        self.cov["model_runs"].append(dict(module=name, distinct_states=res["states"], states_generated=res["transitions"],
                                           depth=res["depth"], constants=constants or {}, wall_s=round(res["wall"], 1),
                                           actions=res.get("coverage", {})))

    def violation(self, key, what, payload):
        """key: classifier dict (shape of the failing case); what: one line; payload: dict written to the replay dir"""
        for k in self.known:
            if all(key.get(a) == b for a, b in k["key"].items()):
                if k["id"] not in [h["id"] for h in self.known_hits]:
                    self.known_hits.append(k)
                return
        self.violations.append((key, what, payload))

    def finish(self):
        os.makedirs(EVID, exist_ok=True)
        for k in self.known_hits:
            print("KNOWN-FINDING: property=%s %s" % (self.prop, k["what"]))
        replay = None
        if self.violations:
            rd = os.path.join(VERIF, "replays", "%s_%s_%d%s" % (self.prop, self.tier, self.seed, "_replayed" if os.environ.get("VERIF_REPLAY") else ""))
            shutil.rmtree(rd, ignore_errors=True)
            os.makedirs(rd, exist_ok=True)
            for n, (key, what, payload) in enumerate(self.violations[:40]):
                with open(os.path.join(rd, "violation_%02d.json" % n), "w") as f:
                    json.dump(dict(property=self.prop, key=key, what=what, **payload), f, indent=1, default=str)
                for fn, txt in (payload.get("files") or {}).items():
                    with open(os.path.join(rd, "v%02d_%s" % (n, fn)), "w") as f:
                        f.write(txt)
            replay = rd
        ev = dict(property_id=self.prop, tier=self.tier, seed=self.seed, level="model_checking",
                  coverage=self.cov, assumptions=self.assumptions, wall_s=round(time.time() - self.t0, 1),
                  violations=len(self.violations), known_findings=[k["id"] for k in self.known_hits])
        if not self.cov["samples"]:
            self.cov["samples"] = ["(none)"]
        self.cov["states"] = max(self.cov["states"], 1)
        self.cov["transitions"] = max(self.cov["transitions"], 1)
        if not os.environ.get("VERIF_REPLAY"):
            with open(os.path.join(EVID, self.prop + ".json"), "w") as f:
                json.dump(ev, f, indent=1)
        if self.violations:
            for key, what, _ in self.violations[:5]:
                log("violation: %s  key=%s" % (what, json.dumps(key)))
            print("VIOLATION property=%s replay=%s" % (self.prop, replay))
            return 1
        print("OK property=%s tier=%s states=%d traces=%d programs=%d evaluations=%d wall=%.0fs" % (
            self.prop, self.tier, self.cov["states"], self.cov["traces_validated_against_impl"],
            self.cov["programs"], self.cov["evaluations"], time.time() - self.t0))
        return 0
