"""Definitions and driver modules for FromRepr (C06) and EnumDiscriminants (C09)."""
import random
from . import defs as D, strcorpus as SC, strgen as SG, itergen as IG
from .defs import variant, enum, field
from .core import uncp, cp

REPRS = ["none", "u8", "i8", "u16", "i16", "u32", "i32", "u64", "i64", "usize", "isize"]
RANGE = {"u8": (0, 255), "i8": (-128, 127), "u16": (0, 65535), "i16": (-32768, 32767), "u32": (0, 2**32 - 1), "i32": (-2**31, 2**31 - 1),
         "u64": (0, 2**64 - 1), "i64": (-2**63, 2**63 - 1), "usize": (0, 2**64 - 1), "isize": (-2**63, 2**63 - 1), "none": (0, 2**63 - 1)}
NARROW = ("u8", "i8", "u16", "i16")


def rtype(E):
    return "usize" if E["repr"] == "none" else E["repr"]


def expr_form(rng, val, R, rel_to_base=5):
    """a Rust constant expression of type R with the given (small) value"""
    forms = [str(val)]
    if val >= 0:
        forms.append(hex(val))
        if val > 0 and val & (val - 1) == 0:
            forms.append("1 << %d" % (val.bit_length() - 1))
        forms.append("BASE + %d" % (val - rel_to_base) if val >= rel_to_base else str(val))
        forms.append("%d_%s" % (val, R))
    else:
        if -val not in (2**7, 2**15, 2**31, 2**63):       # `-(128)` in an i8: the literal itself is out of range
            forms.append("-(%d)" % (-val))
        bits = int(R[1:]) if R[1:].isdigit() else 64
        if rel_to_base - val <= 2 ** (bits - 1) - 1:      # `5_i8 - 133`: the subtrahend itself has to fit
            forms.append("BASE - %d" % (rel_to_base - val))
        forms.append("!%d" % (-val - 1))                   # two's complement: !k == -k - 1
        forms.append("(%d)" % val)
    return rng.choice(forms)


def repr_def(rng, did, n=None, repr_=None, anchored=None, kinds="mixed", generics="none", for_disc=False):
    repr_ = repr_ or rng.choice(REPRS)
    R = "usize" if repr_ == "none" else repr_
    lo, hi = RANGE[repr_]
    n = rng.choice([0, 1, 2, 3, 4, 5, 6, 8]) if n is None else n
    if n == 0:
        repr_, R, generics = "none", "usize", "none"       # rustc: no repr on a zero-variant enum
        lo, hi = RANGE[repr_]
    anchored = (rng.random() < 0.25 and repr_ not in NARROW and repr_ != "none" and n > 0) if anchored is None else (anchored and n > 0)
    # rustc: explicit discriminants next to data need a primitive repr -> generic (data-carrying) enums without repr stay implicit
    allow_explicit = not (repr_ == "none" and (generics != "none" or kinds != "unit"))
    anchor, anchor_rs = 0, "0"
    if anchored:
        if rng.random() < 0.5 or lo == 0:
            anchor, anchor_rs = hi - 40, "(%s::MAX as i128) - 40" % R
        else:
            anchor, anchor_rs = lo + 40, "(%s::MIN as i128) + 40" % R
    # choose discriminants: mix of implicit and explicit, gapped, descending allowed (all distinct, within range)
    vals, vs = [], []
    cur = None
    used = set()
    for i in range(n):
        explicit = allow_explicit and (rng.random() < (0.45 if not anchored else 0.5) or (anchored and i == 0))
        if explicit:
            for _ in range(50):
                if anchored:
                    cand = anchor + rng.randint(-30, 30)
                elif lo < 0 and rng.random() < 0.4:
                    cand = rng.randint(max(lo, -60), -1)
                else:
                    cand = rng.choice([rng.randint(0, 20), rng.randint(0, min(hi, 200)), rng.choice([1, 2, 4, 8, 16, 64])])
                # the limits of the type themselves: MAX on the last variant (nothing follows it), MIN on the first
                # (only where the value fits the specification's integers: narrow reprs, or relative to the anchor)
                fits = (repr_ in NARROW) or anchored
                # (never where a carrier variant for a generic parameter may still be appended after the last one)
                if fits and generics == "none" and not for_disc and i == n - 1 and _ == 0 and rng.random() < 0.2 and (not anchored or "MAX" in anchor_rs) and hi not in used:
                    cur = hi
                    break
                if fits and i == 0 and _ == 0 and lo < 0 and rng.random() < 0.2 and (not anchored or "MIN" in anchor_rs):
                    cur = lo
                    break
                # the run of implicit successors must stay free: keep a gap
                if all(abs(cand - u) > 0 for u in used) and lo <= cand <= hi - 12:
                    cur = cand
                    break
            else:
                explicit = False
        if not explicit:
            cur = 0 if cur is None else cur + 1
        if cur in used or not (lo <= cur <= hi):
            # give up on this variant (keeps the definition valid)
            n = i
            break
        used.add(cur)
        vals.append((cur, explicit))
    for i in range(n):
        val, explicit = vals[i]
        kind = "unit" if kinds == "unit" else rng.choice(["unit", "unit", "unit", "tuple", "named"])
        nf = 0 if kind == "unit" else rng.choice([0, 1, 2])
        fs = SC.rand_fields(rng, kind, nf, generics)
        v = IG.decorate(rng, variant(IG.ids_for(did)[i], kind, fs, dis=(rng.random() < 0.3) and not for_disc))
        if explicit:
            v["disc"] = [val - anchor]
            if anchored:
                off = val - anchor
                base = "%s::MAX - 40" % R if "MAX" in anchor_rs else "%s::MIN + 40" % R
                v["discx"] = "%s %s %d" % (base, "+" if off >= 0 else "-", abs(off))
            else:
                v["discx"] = expr_form(rng, val, R) if repr_ != "none" else rng.choice([str(val), hex(val)])
        vs.append(v)
    E = enum(did, vs, repr_=repr_, generics=generics, split=rng.randrange(2))
    # the same integer repr written together with / next to an alignment hint
    if repr_ != "none" and n > 0 and not for_disc:
        mode = rng.choice(["plain", "plain", "plain", "align_combined", "align_combined_last", "align_split_first", "align_split_last",
                           "trailing_comma", "trailing_comma_split"])
        E["reprs"] = {"plain": [repr_], "align_combined": ["align(16), %s" % repr_], "align_combined_last": ["%s, align(16)" % repr_],
                      "align_split_first": ["align(16)", repr_], "align_split_last": [repr_, "align(16)"],
                      "trailing_comma": ["%s," % repr_], "trailing_comma_split": ["%s," % repr_, "align(16),"]}[mode]
        E["repr_mode"] = mode
    else:
        E["repr_mode"] = "plain"
    E["anchor_rs"] = anchor_rs
    E["absvals"] = [val for val, _ in vals[:n]]
    # one explicit discriminant assembled by a macro_rules! helper from an expression fragment: `$e0 * 2 + r` with e0 = `a + 1`
    E["macro_expr"] = {}
    if not for_disc and not anchored and rng.random() < 0.3:
        ks = [k for k, v in enumerate(vs) if v["disc"] and 2 <= E["absvals"][k] <= 100 and not str(v.get("discx", "")).startswith("-")]
        if ks:
            k = rng.choice(ks)
            E["macro_expr"] = dict(k=k, a="%d + 1" % (E["absvals"][k] // 2 - 1), r=E["absvals"][k] % 2, form=rng.randrange(2))
    has_data = any(v["kind"] != "unit" for v in vs)
    has_explicit = any(v["disc"] for v in vs)
    # rustc: explicit discriminants on an enum with data need a primitive repr; negative values need a signed type
    SC.ensure_generic_use(rng, E)
    return E


def base_const(E):
    return "pub const BASE: %s = 5;\n" % rtype(E)


def fromrepr_module(E):
    R = rtype(E)
    src = SG.HEADER + base_const(E) + D.print_enum(E, ["FromRepr"]) + "\n" + IG.probe_nocapture(E)
    src += "const ANCHOR: i128 = %s;\n" % E["anchor_rs"]
    fieldless = all(v["kind"] == "unit" for v in E["variants"])
    inst = D.inst(E)
    if fieldless and E["generics"] in ("none", "const", "constdef") and E["variants"]:
        # const-context clause: decided by compilation
        src += "pub const CONST_PROBE: Option<%s> = %s::from_repr(%s);\n" % (inst, E["name"], "0")
    src += IG.RUN
    did = E["id"]
    body = []
    # ground truth for Discr
    casts = []
    # rustc itself mis-compiles `V as i8` when the variant lies more than 127 positions after an explicit negative discriminant
    # (the offset is added in i8: "attempt to add with overflow"); such enums are read through the tag instead
    wide = E["repr"] == "i8" and len(E["variants"]) > 127
    for i, v in enumerate(E["variants"]):
        if fieldless and not wide:
            cast_ty = "isize" if E["repr"] == "none" else R
            casts.append('format!("[{},{}]", %d, (%s as %s) as i128 - ANCHOR)' % (i + 1, D.ctor(E, v, 0), cast_ty))
        elif E["repr"] != "none":
            casts.append('{ let x = %s; format!("[{},{}]", %d, (unsafe { *(&x as *const %s as *const %s) }) as i128 - ANCHOR) }'
                         % (D.ctor(E, v, 1), i + 1, inst, R))
    if casts:
        body.append("    { let vals: Vec<String> = vec![%s];" % ", ".join(casts))
        body.append('      o.line(&format!("{{\\"op\\":\\"cast\\",\\"def\\":%d,\\"vals\\":{}}}", jlist(&vals))); }' % did)
    if R in NARROW:
        body.append("    repr_sweep!(o, %d, %s, %s, ANCHOR);" % (did, inst, R))
    vals = []
    for a in E["absvals"]:
        vals += [a, a + 1, a - 1]
    # a variant whose payload must never be built unless it is asked for (its Default panics): its own discriminant is not probed
    skipvals = {E["absvals"][k] for k in E.get("skip_probe", []) if k < len(E["absvals"])}
    vals = [x for x in vals if x not in skipvals]
    body.append("    repr_probes!(o, %d, %s, %s, ANCHOR, [%s] as [i128; %d], seed);" % (did, inst, R, ", ".join("%di128" % x for x in vals), len(vals)))
    if fieldless and E["variants"]:
        oks = []
        for i, v in enumerate(E["variants"]):
            if not v["dis"]:
                c = D.ctor(E, v, 0)
                cast_ty = "usize" if E["repr"] == "none" else R
                if wide:
                    oks.append("if %s::from_repr(unsafe { *(&%s as *const %s as *const %s) }) == Some(%s) { ok.push(%d.to_string()); }" % (E["name"], c, inst, R, c, i + 1))
                else:
                    oks.append("if %s::from_repr(%s as %s) == Some(%s) { ok.push(%d.to_string()); }" % (E["name"], c, cast_ty, c, i + 1))
        body.append("    { let mut ok: Vec<String> = Vec::new(); %s" % " ".join(oks))
        body.append('      o.line(&format!("{{\\"op\\":\\"reprrt\\",\\"def\\":%d,\\"ok\\":{}}}", jlist(&ok))); }' % did)
    src += "\n".join(body) + "\n}\n"
    if E.get("in_fn"):
        # the same program with the enum declared INSIDE the function that uses it: its discriminants name a function-local
        # constant BASE (= 5), while the module has another item of that name (= 9) that the enum does not mean
        head = SG.HEADER + base_const(E)
        i = src.index(IG.RUN)
        items, body_txt = src[len(head):i], src[i + len(IG.RUN):]
        src = (SG.HEADER + "pub const BASE: %s = 9;\n" % R + IG.RUN + "    const BASE: %s = 5;\n" % R +
               "\n".join("    " + l for l in items.splitlines()) + "\n" + body_txt)
    return src


def in_domain(cands, tag):
    """the specification decides distinctness of discriminants; the value range of the repr type is checked here"""
    from . import pipe, core
    facts = pipe.domain_pass(cands, tag, module="DomainRepr")
    out = []
    for E in cands:
        f = facts[E["id"]]
        if not f["distinct"]:
            continue
        lo, hi = RANGE[E["repr"]]
        base = 0
        if "MAX" in E["anchor_rs"]:
            base = hi - 40
        elif "MIN" in E["anchor_rs"]:
            base = lo + 40
        if all(lo <= base + d <= hi for d in f["dv"]):
            E["absvals"] = [base + d for d in f["dv"]]
            out.append(E)
    core.log("[%s] %d candidates, %d with distinct in-range discriminants" % (tag, len(cands), len(out)))
    return out


# --------------------------------------------------------------------------- EnumDiscriminants (C09)
DGEN = {"none": ("", "", ""), "ty": ("<T: Default + Clone + PartialEq + ::core::fmt::Debug>", "<u16>", ""),
        "lt": ("<'a>", "<'static>", ""), "ltty": ("<'a, T>", "<'static, u16>", " where T: Default + Clone + PartialEq + ::core::fmt::Debug + 'a"),
        "tywhere": ("<T>", "<u16>", " where T: Default + Clone + PartialEq + ::core::fmt::Debug"),
        "tydef": ("<T: Default + Clone + PartialEq + ::core::fmt::Debug = u8>", "<u16>", ""),
        "lttydef": ("<'a, T: Default + Clone + PartialEq + ::core::fmt::Debug + 'a = u8, const N: usize = 2>", "<'static, u16, 3>", "")}


def disc_def(rng, did):
    repr_ = rng.choice(["none", "none", "u8", "i8", "u16", "i32", "u64", "isize", "C"])
    base_repr = repr_ if repr_ != "C" else "none"
    E = repr_def(rng, did, n=rng.choice([1, 2, 3, 4, 5]), repr_=base_repr, anchored=False, kinds="mixed", generics="none", for_disc=True)
    # data-carrying variants with explicit discriminants need a primitive repr (rustc); repr(C)/none: keep implicit
    E["dgen"] = rng.choice(["none", "none", "ty", "lt", "ltty", "tywhere", "tydef", "lttydef"])
    for v in E["variants"]:
        for f in v["fields"]:
            if E["dgen"] in ("ty", "ltty", "tywhere", "tydef", "lttydef") and rng.random() < 0.4:
                f["ty"] = "T"
            elif E["dgen"] in ("lt", "ltty", "lttydef") and rng.random() < 0.4:
                f["ty"] = rng.choice(["str", "str", "cellstr"])
    # every generic parameter must be used
    need = {"none": [], "ty": ["T"], "tywhere": ["T"], "lt": ["str"], "ltty": ["T", "str"], "tydef": ["T"], "lttydef": ["T", "str"]}[E["dgen"]]
    have = {f["ty"] for v in E["variants"] for f in v["fields"]}
    for t in need:
        if t not in have:
            E["variants"].append(variant({"T": "CarrierT", "str": "CarrierL"}[t], "tuple", [field(t)]))
    mode = rng.choice(["plain", "plain", "align_combined", "align_split_first", "align_split_last", "trailing_comma_split"]) if repr_ not in ("none",) else rng.choice(["plain", "align_only"])
    if repr_ == "C":
        E["reprs"] = ["C"]
    elif repr_ == "none":
        E["reprs"] = [] if mode == "plain" else ["align(8)"]
    else:
        E["reprs"] = {"plain": [repr_], "align_combined": ["align(16), %s" % repr_], "align_split_first": ["align(16)", repr_],
                      "align_split_last": [repr_, "align(16)"], "C": ["C, %s" % repr_], "trailing_comma_split": ["%s," % repr_, "align(16),"]}[mode]
    E["repr_mode"] = mode
    # one explicit discriminant assembled by a macro_rules! helper from an expression fragment: `$e0 * 2 + r` with e0 = `a + 1`
    # (the fragment is grouped invisibly; the value must survive the copy to the discriminant enum)
    E["macro_expr"] = {}
    if rng.random() < 0.35:
        ks = [k for k, v in enumerate(E["variants"]) if v["disc"] and not v.get("discx", "").startswith(("BASE", "-")) and 2 <= E["absvals"][k] <= 100]
        if ks:
            k = rng.choice(ks)
            val = E["absvals"][k]
            E["macro_expr"] = dict(k=k, a="%d + 1" % (val // 2 - 1), r=val % 2, form=rng.randrange(2))
    E["dname"] = rng.choice(["", "", "Kind%d" % did])
    E["dvis"] = rng.choice(["", "", "pub", "pub(crate)", "pub(super)"])
    E["dvis_empty"] = E["dvis"] == "" and did % 5 == 2        # written `vis()`: private, which is not the same as no `vis(..)` at all
    E["dder"] = rng.random() < 0.7
    E["dder_vn"] = E["dder"] and did % 4 == 3
    E["dstyle"] = rng.choice(["none", "snake_case", "SCREAMING_SNAKE_CASE", "kebab-case", "camelCase"]) if E["dder"] else "none"
    E["dsplit"] = rng.randrange(2)
    E["ddefault"] = rng.random() < 0.3          # derive(Default) on the discriminant enum + #[strum_discriminants(default)] on one variant
    # type-level pass-through attributes other than derives: they must arrive on the generated enum
    E["dpass"] = rng.choice([[], [], ["allow(dead_code)"], ["doc(hidden)"], ["doc(hidden)", "allow(dead_code)"], ["cfg_attr(all(), derive(PartialOrd))"],
                             ["doc(alias = \"kind\")", "cfg_attr(all(), derive(PartialOrd))"]])
    for k, v in enumerate(E["variants"]):
        r = rng.random()
        # one or two separate variant-level pass-through attributes (the longer literal names the variant)
        v["dser"] = ([cp("d%d-%s" % (k, "Xy"))] if r < 0.2 else [cp("s%d" % k), cp("longer-%d" % k)] if r < 0.4 else []) if E["dder"] else []
    return E


def disc_module(E):
    n = E["name"]
    dn = E["dname"] or (n + "Discriminants")
    decl, inst, where = DGEN[E["dgen"]]
    R = rtype(E)
    has_int_repr = E["repr"] != "none"
    cast_ty = R if has_int_repr else "isize"
    items = []
    if E["dname"]:
        items.append("name(%s)" % dn)
    if E["dvis"] or E.get("dvis_empty"):
        items.append("vis(%s)" % E["dvis"])
    if E.get("ddefault") and E["variants"]:
        items.append("derive(Default)")
    items += E.get("dpass", [])
    if E["dder"]:
        # (every third time the generated enum derives EnumDiscriminants itself: a second expansion of the same derive)
        if E.get("dder_vn"):
            items.append("derive(strum::VariantNames)")       # the ONLY strum derive on the generated enum: the passed-through style is for it
        else:
            items.append("derive(strum::EnumIter, strum::EnumString, strum::Display, strum::EnumCount, Hash%s)" % (", strum::EnumDiscriminants" if E["id"] % 3 == 0 else ""))
        if E["dstyle"] != "none":
            items.append('strum(serialize_all = "%s")' % E["dstyle"])
    attrs = []
    if items:
        attrs = ["#[strum_discriminants(%s)]" % i for i in items] if E["dsplit"] else ["#[strum_discriminants(%s)]" % ", ".join(items)]
    src = SG.HEADER + base_const(E)
    src += "pub mod inner {\n    use vsupport::*;\n    use super::BASE;\n"
    lines = ["#[derive(Debug, Clone, PartialEq, strum::EnumDiscriminants)]"] + ["#[repr(%s)]" % r for r in E["reprs"]] + attrs
    lines.append("pub enum %s%s%s {" % (n, decl, where))
    mx = E.get("macro_expr")
    ref_discx = {}
    for k, v in enumerate(E["variants"]):
        if v.get("dser"):
            v = dict(v)
            v["xattrs"] = list(v.get("xattrs", [])) + ['#[strum_discriminants(strum(serialize = %s))]' % D.rs_str(s) for s in v["dser"]]
        if E.get("ddefault") and k == len(E["variants"]) // 2:
            v = dict(v)
            v["xattrs"] = list(v.get("xattrs", [])) + ["#[strum_discriminants(default)]", '#[strum_discriminants(doc = "the default kind")]']
        if mx and mx["k"] == k:
            v = dict(v)
            v["discx"] = D.MACRO_EXPR_FORMS[mx.get("form", 0)] % mx["r"]
            ref_discx[k] = "(%s) * 2 + %d" % (mx["a"], mx["r"])
        lines += D.print_variant(v, 0, with_strum=False, indent="    ")
    lines.append("}")
    if mx or E.get("via_macro"):
        # declared through a macro_rules! helper: the enum's name (and perhaps a discriminant fragment) come from the caller
        lines = [l.replace("pub enum %s" % n, "pub enum $name", 1) if l.startswith("pub enum %s" % n) else l for l in lines]
        params = ["$name:ident"] + (["$e0:expr"] if mx else [])
        margs = [n] + ([mx["a"]] if mx else [])
        lines = (["macro_rules! declare_%s {" % n.lower(), "    (%s) => {" % ", ".join(params)] + ["        " + l for l in lines] +
                 ["    };", "}", "declare_%s!(%s);" % (n.lower(), ", ".join(margs))])
    if E["dgen"] == "none" and E["id"] % 2 == 0:
        lines.append("impl %s {" % n)
        lines += ["    " + m for m in D.DECOYS["EnumDiscriminants"]]
        lines.append("}")
    if E["id"] % 3 == 1 and n.lower() != n:
        # a second enum in the same module whose snake_case name coincides with this one's (`E7` / `e7`): whatever helper items the
        # derive generates for the two must not collide
        lines += ["#[derive(Debug, Clone, PartialEq, strum::EnumDiscriminants)]", "pub enum %s { First(u8), Second }" % n.lower()]
    # reference enum for the layout clause: same repr lines, same discriminants, no fields
    lines += ["#[repr(%s)]" % r for r in E["reprs"]]
    lines.append("pub enum Ref%d {" % E["id"])
    for k, v in enumerate(E["variants"]):
        lines.append("    %s%s," % (D.vid(v), (" = " + (ref_discx.get(k) or v.get("discx") or str(v["disc"][0]))) if v["disc"] else ""))
    lines.append("}")
    inner_txt = "\n".join("    " + l for l in lines) + "\n"
    tail = ""
    if any("PartialOrd" in x for x in E.get("dpass", [])):
        # the derive requested through cfg_attr(all(), ..) took effect
        tail += "fn _passes_through<X: PartialOrd>() {}\nfn _check_pass_through() { _passes_through::<%s>(); }\n" % dn
    tail += "fn d_index(d: %s) -> usize { match d { %s } }\n" % (dn, " ".join("%s::%s => %d," % (dn, D.vid(v), i + 1) for i, v in enumerate(E["variants"])))
    tail += "const ANCHOR: i128 = 0;\n"
    has_into = E["dvis"] in ("", "pub") and not E.get("dvis_empty")
    body = []
    did = E["id"]
    Einst = {"name": n, "generics": "none"}
    for i, v in enumerate(E["variants"]):
        k = i + 1
        for which in (1, 2):
            vals = []
            for f in v["fields"]:
                if f["ty"] == "T":
                    vals.append(["0u16", "41u16", "42u16"][which])
                elif f["ty"] == "str":
                    vals.append(['""', '"brw"', '"bq"'][which])
                else:
                    vals.append(D.TYPES[f["ty"]][1 + which])
            ident = "%s::%s" % (n, D.vid(v))
            if v["kind"] == "tuple":
                ctor = "%s(%s)" % (ident, ", ".join(vals))
            elif v["kind"] == "named":
                ctor = "%s { %s }" % (ident, ", ".join("%s: %s" % (f["name"], x) for f, x in zip(v["fields"], vals)))
            else:
                ctor = ident
            blk = ["    {", "        let r = catch(|| {", "            let x: %s%s = %s;" % (n, inst, ctor),
                   "            let from_ref = d_index(%s::from(&x));" % dn,
                   "            let as_int = (%s::from(&x) as %s) as i128 - ANCHOR;" % (dn, cast_ty)]
            if has_into:
                blk.append("            let into = d_index(strum::IntoDiscriminant::discriminant(&x));")
            else:
                blk.append("            let into = 0usize;")
            if has_int_repr:
                blk.append("            let tag = (unsafe { *(&x as *const %s%s as *const %s) }) as i128 - ANCHOR; let has_tag = 1;" % (n, inst, R))
            else:
                blk.append("            let tag = 0i128; let has_tag = 0;")
            blk.append("            let from = d_index(%s::from(x));" % dn)
            blk.append('            o.line(&format!("{{\\"op\\":\\"disc\\",\\"def\\":%d,\\"i\\":%d,\\"from\\":{},\\"from_ref\\":{},\\"has_into\\":%d,\\"into\\":{},\\"as_int\\":{},\\"has_tag\\":{},\\"tag\\":{}}}", from, from_ref, into, as_int, has_tag, tag));' % (did, k, 1 if has_into else 0))
            blk += ["        });", SG._ev_panic(did, k), "    }"]
            body += blk
            if v["kind"] == "unit":
                break
    body.append('    o.line(&format!("{{\\"op\\":\\"dlayout\\",\\"def\\":%d,\\"size\\":{},\\"align\\":{},\\"ref_size\\":{},\\"ref_align\\":{}}}", core::mem::size_of::<%s>(), core::mem::align_of::<%s>(), core::mem::size_of::<Ref%d>(), core::mem::align_of::<Ref%d>()));' % (did, dn, dn, did, did))
    if E["dder"] and E.get("dder_vn"):
        body += ["    {",
                 "        let all: Vec<%s> = vec![%s];" % (dn, ", ".join("%s::%s" % (dn, D.vid(v)) for v in E["variants"])),
                 "        let iter: Vec<String> = all.iter().map(|d| d_index(*d).to_string()).collect();",
                 "        let names: Vec<String> = <%s as strum::VariantNames>::VARIANTS.iter().map(|s| s.to_string()).collect();" % dn,
                 '        o.line(&format!("{{\\"op\\":\\"dderives\\",\\"def\\":%d,\\"iter\\":{},\\"names\\":{},\\"parsed\\":{},\\"count\\":{}}}", jlist(&iter), jstrs(&names), jlist(&iter), names.len()));' % did,
                 "    }"]
    elif E["dder"]:
        body += ["    {", "        use strum::IntoEnumIterator;",
                 "        let iter: Vec<String> = %s::iter().map(|d| d_index(d).to_string()).collect();" % dn,
                 "        let all: Vec<%s> = vec![%s];" % (dn, ", ".join("%s::%s" % (dn, D.vid(v)) for v in E["variants"])),
                 "        let names: Vec<String> = all.iter().map(|d| d.to_string()).collect();",
                 "        let parsed: Vec<String> = names.iter().map(|s| match s.parse::<%s>() { Ok(d) => d_index(d).to_string(), Err(_) => \"0\".to_string() }).collect();" % dn,
                 "        let mut hs = std::collections::HashSet::new(); for d in &all { hs.insert(*d); }",
                 '        o.line(&format!("{{\\"op\\":\\"dderives\\",\\"def\\":%d,\\"iter\\":{},\\"names\\":{},\\"parsed\\":{},\\"count\\":{}}}", jlist(&iter), jstrs(&names), jlist(&parsed), <%s as strum::EnumCount>::COUNT));' % (did, dn),
                 "    }"]
    tail += IG.RUN + "\n".join(body) + "\n}\n"
    if E.get("dvis_empty"):
        # `vis()`: the generated enum is private to the module of the enum, so the drivers live in that module too; from outside, its
        # name must not be reachable through a glob import (a second glob of the same name would make it ambiguous), and strum
        # implements IntoDiscriminant only for a generated type that is as visible as the enum (a hand-written impl must not collide)
        src += inner_txt + "".join("    " + l + "\n" for l in tail.splitlines()) + "}\n"
        src += "pub use inner::run;\nuse inner::*;\n"
        src += "mod other_kinds { pub enum %s { Probe } }\nuse other_kinds::*;\nfn _stays_private(_: %s) {}\n" % (dn, dn)
        if E["dgen"] == "none":
            src += "impl strum::IntoDiscriminant for %s { type Discriminant = u8; fn discriminant(&self) -> u8 { 0 } }\n" % n
    else:
        src += inner_txt + "}\nuse inner::*;\n" + tail
    return src
