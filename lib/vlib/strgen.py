"""Rust source of per-definition driver modules for the string derives."""
from . import defs as D
from .core import uncp

HEADER = "#![allow(warnings)]\n#![allow(arithmetic_overflow)]   // rustc flags `V as i8` on enums whose variants lie more than 127 positions apart\nuse vsupport::*;\n// the module alias many crates have: generated code must not pick it up for the two-parameter Result it means\npub type Result<T> = ::core::result::Result<T, ()>;\n"


def captured_fn(E):
    """Probe::captured for the instantiated enum: the inner value of a default variant, rendered with {}"""
    arms = []
    for v in E["variants"]:
        if v["def"] and len(v["fields"]) == 1:
            arms.append("            %s => Some(format!(\"{}\", b0))," % D.pattern(E, v, ["b0"]))
    arms.append("            _ => None,")
    return "\n".join(arms)


def probe_impl(E):
    return ("%s\n%s\nimpl Probe for %s {\n"
            "    fn decl_index(&self) -> usize { %s::decl_index(self) }\n"
            "    fn payload_ok(&self) -> bool { payload_ok(self) }\n"
            "    fn captured(&self) -> Option<String> {\n        match self {\n%s\n        }\n    }\n}\n"
            % (D.helper_impl(E), D.payload_ok_fn(E), D.inst(E), E["name"], captured_fn(E)))


def err_type(E):
    """the error type the driver names.  With parse_err_ty it is the user's type, without it strum::ParseError (C18 decides this
    through the annotation itself); next to an enabled default variant no parse can fail and no property says which of the two
    the associated type is, so the driver takes whatever FromStr declares"""
    if E["perr"] and any(v["def"] and not v["dis"] for v in E["variants"]):
        return "<%s as ::core::str::FromStr>::Err" % D.inst(E)
    return "UserErr" if E["perr"] else "strum::ParseError"


def parse_module(E, extra_derives=(), std_derives=("Debug", "Clone", "PartialEq")):
    """module that parses every input with FromStr and TryFrom"""
    err = err_type(E)
    src = HEADER
    src += D.in_user_scope(D.print_enum(E, ["EnumString"] + list(extra_derives), std_derives=std_derives), E) + "\n"
    src += probe_impl(E)
    if E["id"] % 2 == 0:
        src += D.decoys(E, ["EnumString"] + list(extra_derives))
    src += ("pub fn run(o: &mut Out, ins: &std::collections::HashMap<u32, Vec<String>>, seed: u64) {\n"
            "    let empty: Vec<String> = Vec::new();\n"
            "    let xs = ins.get(&%d).unwrap_or(&empty);\n"
            "    parse_batch::<%s, %s>(o, %d, xs);\n" % (E["id"], D.inst(E), err, E["id"]))
    if not E["perr"]:
        # the error value of one failed parse, observed through Display / Debug / std::error::Error
        src += "    perr_event::<%s, %s>(o, %d, \"\\u{1}no such spelling\\u{1}\");\n" % (D.inst(E), err, E["id"])
    src += "}\n"
    return src


def twin(E, suffix="B"):
    """same definition under another name (for derives that cannot coexist on one type)"""
    import copy
    B = copy.deepcopy(E)
    B["name"] = E["name"] + suffix
    return B


def names_module(E, derives=("Display", "AsRefStr", "IntoStaticStr", "VariantNames"), dep=True, parse=False,
                 sers=False, which=1):
    """module observing every string-producing derive on one value per enabled fixed-name variant"""
    ds = list(derives)
    if parse:
        ds.append("EnumString")
    if sers:
        ds.append("EnumMessage")
    src = HEADER
    src += D.in_user_scope(D.print_enum(E, ds), E) + "\n"
    if parse:
        src += probe_impl(E)
    if E["id"] % 2 == 0:
        src += D.decoys(E, ds)       # inherent items named like the traits' (drivers below call the traits by path)
    B = twin(E)
    if dep:
        src += D.print_enum(B, ["ToString", "AsStaticStr"] + (["EnumVariantNames"] if "VariantNames" in ds else [])) + "\n"
    did = E["id"]
    body = []
    err = err_type(E)
    for i, v in enumerate(E["variants"]):
        if v["dis"]:
            continue
        k = i + 1
        fixed = not v["def"] and not v["transp"]
        x = D.ctor(E, v, which)
        blk = ["    {", "        let r = catch(|| {", "            let x = %s;" % x]
        if fixed:
            has = lambda d: d in ds
            outs = []
            if has("Display"):
                blk.append('            let display = format!("{}", x);')
                blk.append('            let tostr = ::std::string::ToString::to_string(&x);')
                outs += [("display", "&display"), ("to_string", "&tostr")]
            if has("AsRefStr"):
                blk.append('            let as_ref: String = AsRef::<str>::as_ref(&x).to_string();')
                outs += [("as_ref", "&as_ref")]
            if has("IntoStaticStr"):
                blk.append("            let into_ref: &'static str = <&'static str as ::core::convert::From<&%s>>::from(&x);" % D.inst(E))
                blk.append("            let into_val: &'static str = <&'static str as ::core::convert::From<%s>>::from(::core::clone::Clone::clone(&x));" % D.inst(E))
                outs += [("into_ref", "into_ref"), ("into_val", "into_val")]
                if E["cis"]:
                    blk.append("            let into_str: &'static str = x.into_str();")
                    outs += [("into_str", "into_str")]
            if dep:
                blk.append("            let xb = %s;" % D.ctor(B, v, which))
                blk.append("            let dep_to_string = xb.to_string();")
                blk.append("            let as_static: &'static str = strum::AsStaticRef::<str>::as_static(&xb);")
                outs += [("ToString", "&dep_to_string"), ("AsStaticStr", "as_static")]
            fmt = ",".join('{{\\"k\\":\\"%s\\",\\"s\\":{}}}' % k_ for k_, _ in outs)
            args = ", ".join("jcps(%s)" % e_ for _, e_ in outs)
            blk.append('            let mut evs = vec![format!("{{\\"op\\":\\"names\\",\\"def\\":%d,\\"i\\":%d,\\"n\\":%d,\\"outs\\":[%s]}}", %s)];' % (did, k, len(outs), fmt, args))
            if parse and not E["prefix"]:
                srcs = []
                if has("Display"):
                    srcs.append(("display", "display.clone()"))
                if has("AsRefStr"):
                    srcs.append(("as_ref", "as_ref.clone()"))
                if has("IntoStaticStr"):
                    srcs.append(("into", "into_ref.to_string()"))
                for nm, ex in srcs:
                    blk.append('            { let s: String = %s; evs.push(format!("{{\\"op\\":\\"rt\\",\\"def\\":%d,\\"i\\":%d,\\"src\\":\\"%s\\",\\"s\\":{},\\"r\\":{}}}", jcps(&s), parse_one::<%s, %s>(&s))); }' % (ex, did, k, nm, D.inst(E), err))
                if sers:
                    blk.append('            for s in strum::EnumMessage::get_serializations(&x) { evs.push(format!("{{\\"op\\":\\"rt\\",\\"def\\":%d,\\"i\\":%d,\\"src\\":\\"sers\\",\\"s\\":{},\\"r\\":{}}}", jcps(s), parse_one::<%s, %s>(s))); }' % (did, k, D.inst(E), err))
        else:
            blk.append("            let mut evs: Vec<String> = Vec::new();")
        if sers:
            blk.append('            evs.push(format!("{{\\"op\\":\\"sers\\",\\"def\\":%d,\\"i\\":%d,\\"sers\\":{}}}", jstrs(strum::EnumMessage::get_serializations(&x))));' % (did, k))
        blk.append("            evs")
        blk.append("        });")
        blk.append('        match r { Ok(evs) => for e in evs { o.line(&e); }, Err(p) => o.line(&format!("{{\\"op\\":\\"panic\\",\\"def\\":%d,\\"i\\":%d,\\"msg\\":{}}}", jcps(&p))) }' % (did, k))
        blk.append("    }")
        body += blk
    # get_serializations of disabled variants too
    if sers:
        for i, v in enumerate(E["variants"]):
            if v["dis"]:
                body.append('    { let x = %s; o.line(&format!("{{\\"op\\":\\"sers\\",\\"def\\":%d,\\"i\\":%d,\\"sers\\":{}}}", jstrs(strum::EnumMessage::get_serializations(&x)))); }' % (D.ctor(E, v, which), did, i + 1))
    if "VariantNames" in ds:
        body.append('    o.line(&format!("{{\\"op\\":\\"vnames\\",\\"def\\":%d,\\"names\\":{}}}", jstrs(<%s as strum::VariantNames>::VARIANTS)));' % (did, D.inst(E)))
        if dep:
            # the deprecated spelling of the same derive, on the twin enum
            body.append('    o.line(&format!("{{\\"op\\":\\"vnames\\",\\"def\\":%d,\\"names\\":{}}}", jstrs(<%s as strum::VariantNames>::VARIANTS)));' % (did, D.inst(B)))
    src += ("pub fn run(o: &mut Out, ins: &std::collections::HashMap<u32, Vec<String>>, seed: u64) {\n%s\n}\n" % "\n".join(body))
    return src


# --------------------------------------------------------------------------- Display formatting (C17) / forwarding (C11)
def _ev_panic(did, k):
    return ('        match r { Ok(()) => {}, Err(p) => o.line(&format!("{{\\"op\\":\\"panic\\",\\"def\\":%d,\\"i\\":%d,\\"msg\\":{}}}", jcps(&p))) }'
            % (did, k))


def display_module(E, facts, derives=("Display",)):
    """fixed names under the spec grid; interpolating literals next to a hand-written format!"""
    src = HEADER + D.print_enum(E, list(derives), std_derives=E.get("std_derives", ("Debug", "Clone", "PartialEq"))) + "\n"
    src += E.get("extra_items", "")
    did = E["id"]
    body = []
    for i, v in enumerate(E["variants"]):
        k = i + 1
        if v["dis"] or v["transp"] or (v["def"] and not v["ts"]):
            continue
        mut = [f["ty"] == "mutref" for f in v["fields"]]
        if facts["interp"][i]:
            for vs in v.get("vals") or [[D._fval(E, f, 1) for f in v["fields"]], [D._fval(E, f, 2) for f in v["fields"]]]:
                blk = ["    {", "        let r = catch(|| {"]
                for n, ex in enumerate(vs):
                    if mut[n]:
                        blk.append("            let mut m%d = %s; let v%d = &mut m%d;" % (n, ex, n, n))      # a `&mut` field needs a place
                    else:
                        blk.append("            let v%d = %s;" % (n, ex))
                lit = D.rs_str((E["prefix"][0] if E["prefix"] else []) + v["ts"][0])
                if v["kind"] == "tuple":
                    args = ", ".join("v%d" % n for n in range(len(vs)))
                else:
                    used = sorted({p["f"] for p in v["ph"]} | {p["param"] for p in v["ph"] if p.get("param")})
                    args = ", ".join("%s = v%d" % (v["fields"][f - 1]["name"], f - 1) for f in used)
                blk.append("            let std = format!(%s, %s);" % (lit, args))
                frs = []
                seen = set()
                for p in v["ph"]:
                    key = (p["f"], p["spec"])
                    if key in seen:
                        continue
                    seen.add(key)
                    if p.get("param"):
                        # the parameter is passed positionally to std's own rendering of this one field
                        fl = "{0:%s}" % p["tmpl"].replace("@", "1")
                        fargs = "v%d, v%d" % (p["f"] - 1, p["param"] - 1)
                    else:
                        fl = "{:%s}" % p["spec"] if p["spec"] else "{}"
                        fargs = "v%d" % (p["f"] - 1)
                    frs.append('format!("{{\\"f\\":%d,\\"spec\\":{},\\"out\\":{}}}", jcps(%s), jcps(&format!("%s", %s)))'
                               % (p["f"], D.rs_str([ord(c) for c in p["spec"]]), fl, fargs))
                blk.append("            let fr: Vec<String> = vec![%s];" % ", ".join(frs))
                # the value is built last: a `&mut` payload moves into it
                blk.append("            let x = %s;" % D.ctor(E, v, vals=[("v%d" if mut[n] else "v%d.clone()") % n for n in range(len(vs))]))
                blk.append('            let obs = format!("{}", x);')
                blk.append('            o.line(&format!("{{\\"op\\":\\"interp\\",\\"def\\":%d,\\"i\\":%d,\\"obs\\":{},\\"std\\":{},\\"fr\\":{}}}", jcps(&obs), jcps(&std), jlist(&fr)));' % (did, k))
                blk.append("        });")
                blk.append(_ev_panic(did, k))
                blk.append("    }")
                body += blk
        else:
            places = ["            let mut m%d = 7u8;" % n for n in range(len(mut)) if mut[n]]
            vals = [("&mut m%d" % n) if mut[n] else D._fval(E, f, 1) for n, f in enumerate(v["fields"])] if any(mut) else None
            body += ["    {", "        let r = catch(|| {"] + places + ["            let x = %s;" % D.ctor(E, v, 1, vals=vals),
                     "            fmt_event(o, %d, %d, &x);" % (did, k), "        });", _ev_panic(did, k), "    }"]
    src += ("pub fn run(o: &mut Out, ins: &std::collections::HashMap<u32, Vec<String>>, seed: u64) {\n%s\n}\n" % "\n".join(body))
    return src


def forward_module(E, with_parse=True):
    """default / transparent variants next to their inner value"""
    has_tr = any(v["transp"] for v in E["variants"])
    ds = ["Display"] + (["AsRefStr"] if E.get("fwd_asref") else []) + (["IntoStaticStr"] if E.get("fwd_into") else [])
    if with_parse:
        ds.append("EnumString")
    src = HEADER + D.print_enum(E, ds) + "\n"
    if with_parse:
        src += probe_impl(E)
    src += E.get("extra_items", "")
    did = E["id"]
    err = err_type(E)
    body = []
    for i, v in enumerate(E["variants"]):
        k = i + 1
        if v["dis"] or not (v["transp"] or (v["def"] and not v["ts"])):
            continue
        f0 = v["fields"][0]
        for which in (1, 2):
            inner = v.get("inner_vals", [None, None])[which - 1] or D._fval(E, f0, which)
            blk = ["    {", "        let r = catch(|| {", "            let inner = %s;" % inner,
                   "            let x = %s;" % D.ctor(E, v, vals=["inner.clone()"]),
                   "            fwd_event(o, %d, %d, &x, &inner);" % (did, k)]
            if v["transp"] and E.get("fwd_asref"):
                blk.append('            fwd_str_event(o, %d, %d, "as_ref", AsRef::<str>::as_ref(&x), AsRef::<str>::as_ref(&inner));' % (did, k))
            if v["transp"] and E.get("fwd_into"):
                blk.append("            { let a: &'static str = (&x).into(); let b: &'static str = inner.into(); let c: &'static str = x.clone().into();")
                blk.append('              fwd_str_event(o, %d, %d, "into_ref", a, b); fwd_str_event(o, %d, %d, "into_val", c, b); }' % (did, k, did, k))
            blk += ["        });", _ev_panic(did, k), "    }"]
            body += blk
    if with_parse:
        body.append("    let empty: Vec<String> = Vec::new();")
        body.append("    let xs = ins.get(&%d).unwrap_or(&empty);" % did)
        body.append("    parse_batch::<%s, %s>(o, %d, xs);" % (D.inst(E), err, did))
        if any(v["def"] and not v["dis"] for v in E["variants"]):
            body.append("    capture_batch::<%s, %s>(o, %d, xs);" % (D.inst(E), err, did))
    src += ("pub fn run(o: &mut Out, ins: &std::collections::HashMap<u32, Vec<String>>, seed: u64) {\n%s\n}\n" % "\n".join(body))
    return src
