"""Rust source of per-definition driver modules for the string derives."""
from . import defs as D
from .core import uncp

HEADER = "#![allow(warnings)]\nuse vsupport::*;\n"


def captured_fn(E):
    """Probe::captured for the instantiated enum: the inner value of a default variant, rendered with {}"""
    arms = []
    for v in E["variants"]:
        if v["def"] and len(v["fields"]) == 1:
            arms.append("            %s => Some(format!(\"{}\", b0))," % D.pattern(E, v, ["b0"]))
    arms.append("            _ => None,")
    return "\n".join(arms)


def probe_impl(E):
    return ("%s\n%s\nimpl Probe for %s {\n"
            "    fn decl_index(&self) -> usize { %s::decl_index(self) }\n"
            "    fn payload_ok(&self) -> bool { payload_ok(self) }\n"
            "    fn captured(&self) -> Option<String> {\n        match self {\n%s\n        }\n    }\n}\n"
            % (D.helper_impl(E), D.payload_ok_fn(E), D.inst(E), E["name"], captured_fn(E)))


def parse_module(E, extra_derives=(), std_derives=("Debug", "Clone", "PartialEq")):
    """module that parses every input with FromStr and TryFrom"""
    err = "UserErr" if E["perr"] else "strum::ParseError"
    src = HEADER
    src += D.print_enum(E, ["EnumString"] + list(extra_derives), std_derives=std_derives) + "\n"
    src += probe_impl(E)
    src += ("pub fn run(o: &mut Out, ins: &std::collections::HashMap<u32, Vec<String>>, seed: u64) {\n"
            "    let empty: Vec<String> = Vec::new();\n"
            "    let xs = ins.get(&%d).unwrap_or(&empty);\n"
            "    parse_batch::<%s, %s>(o, %d, xs);\n}\n" % (E["id"], D.inst(E), err, E["id"]))
    return src
