"""Definitions and driver modules for EnumIs / EnumTryAs (C13), EnumMessage (C14), EnumProperty (C15)."""
import random
from . import defs as D, strcorpus as SC, strgen as SG, itergen as IG
from .defs import variant, enum, field, rs_str
from .core import uncp, cp

IDENTS13 = ["Red", "HTTPServer", "Ab12Cd", "V2", "Xml2Json", "A", "Ab", "DarkBlue", "X1", "IOError", "MyVariant", "TLS13", "Item9",
            "Option2", "Utf8To16", "X1Y2", "A1B2C3", "Sha2With512", "SHOUT", "snake_id", "Foo_Bar", "Utf8Str", "B2B", "Ipv4Addr", "Sha256Sum", "Z", "AB", "ABc", "Hello2You", "U8", "None", "Some", "Ok", "Err", "Option", "type", "fn", "loop"]
TRY_TYPES = ["u8", "i32", "bool", "String", "opt", "char", "i64", "u16"]


def isas_def(rng, did):
    n = rng.choice([1, 2, 3, 4, 5, 6])
    generics = rng.choice(["none", "none", "ty", "lt", "tywhere", "const", "tydef", "constdef"])
    idents = rng.sample(IDENTS13, n)
    vs = []
    for ident in idents:
        kind = rng.choice(["unit", "tuple", "tuple", "tuple", "named"])
        if kind == "tuple":
            nf = rng.choice([0, 1, 2, 3])
            if rng.random() < 0.4 and nf >= 2:
                t = rng.choice(TRY_TYPES)
                tys = [t] * nf                     # same type, distinct values: a permuted tuple still type-checks
            else:
                pool = TRY_TYPES + (["T"] if generics in ("ty", "tywhere", "tydef") else []) + (["str"] if generics == "lt" else [])
                tys = [rng.choice(pool) for _ in range(nf)]
            fs = [field(t) for t in tys]
        elif kind == "named":
            nf = rng.choice([0, 1, 1, 2])           # `V {}`: a struct-like variant without fields is not a tuple variant
            names = rng.sample(SC.FIELD_NAMES, nf)
            fs = [field(rng.choice(TRY_TYPES), names[k]) for k in range(nf)]
        else:
            fs = []
        vs.append(IG.decorate(rng, variant(ident, kind, fs, dis=rng.random() < 0.12)))
    E = enum(did, vs, generics=generics, split=rng.randrange(2))
    return SC.ensure_generic_use(rng, E)


def isas_special(did, k):
    """hand-picked shapes: one enabled variant among disabled ones; several digit groups; acronyms"""
    shapes = [
        [variant("Data", "tuple", [field("u8")]), variant("Reserved", dis=True)],
        [variant("Reserved", dis=True), variant("Only"), variant("Gone", "tuple", [field("i32")], dis=True)],
        [variant("Utf8To16"), variant("Sha2With512", "tuple", [field("i32"), field("String")]), variant("Ipv4In6", "tuple", [field("u8")]), variant("Latin1")],
        [variant("A1B2C3", "tuple", [field("u8"), field("u8"), field("u8")]), variant("X1Y2", "named", [field("u8", "x")])],
        [variant("Empty"), variant("Circle", "tuple", [field("u8")]), variant("Hidden", "tuple", [field("u16")], dis=True),
         variant("Square", "tuple", [field("i32"), field("String")])],
        [variant("Z\u00fcrich2", "tuple", [field("u8")]), variant("Caf\u00e92"), variant("M\u00fcnchen10", "named", [field("u8", "x")])],
        [variant("Solo", "tuple", [])],
        [variant("Solo")],
        [variant("Flag", "tuple", [field("uopt")]), variant("Pair", "tuple", [field("uopt"), field("u8")]), variant("Plain"), variant("Named", "named", [field("uopt", "o")]),
         variant("Off", "tuple", [field("uopt")], dis=True)],
        [variant("Idle", "named", []), variant("Queued", "tuple", [field("u16")]), variant("Failed", "named", [field("i32", "code")]), variant("Gone", "named", [], dis=True),
         variant("Done")],
        # explicit discriminants on data-carrying variants (legal with a primitive repr)
        "REPR_U8",
        # more variants than a byte counts; a few carry payloads, a few are disabled
        [variant("V%03d" % i, "tuple" if i in (5, 130, 258, 299) else "unit", [field("u8")] if i in (5, 130, 258, 299) else [], dis=(i in (7, 260)))
         for i in range(300)],
    ]
    shapes.append([variant("Wide", "tuple", [field(t) for t in ("u8", "i32", "bool", "String", "u16", "i64", "char", "u8", "i32", "u16", "i64", "bool", "u8")]),
                   variant("Twelve", "tuple", [field("u8")] * 12), variant("Plain"), variant("Ten", "tuple", [field("i32")] * 10)])
    shapes.append("REPR_EXPR")
    sh = shapes[k % len(shapes)]
    if sh == "REPR_EXPR":
        vs = [variant("Neg", disc=-1, discx="-1"), variant("Zero"), variant("Letter", "tuple", [field("u8")], disc=103, discx="b'g' as i16"), variant("After"),
              variant("Shift", disc=64, discx="1 << 6"), variant("Hex", "tuple", [field("bool")], disc=256, discx="0x100"), variant("Sum", disc=21, discx="5 + 0x10"), variant("Last")]
        return enum(did, vs, repr_="i16")
    if sh == "REPR_U8":
        vs = [variant("Small", "tuple", [field("u8")], disc=1), variant("Pair", "tuple", [field("u8"), field("bool")], disc=7), variant("Empty", "tuple", [], disc=9),
              variant("Plain", disc=12), variant("Named", "named", [field("u8", "x")]), variant("Off", "tuple", [field("u8")], dis=True, disc=40)]
        return enum(did, vs, repr_="u8")
    return enum(did, sh)


def _vals(E, v, which):
    """distinct value per field even when types repeat"""
    out = []
    for k, f in enumerate(v["fields"]):
        base = D._fval(E, f, which)
        ty = f["ty"]
        if ty in ("u8", "u16", "i32", "i64"):
            base = "%d%s" % (10 * which + k + 1, ty)
        elif ty == "T":
            base = "%d%s" % (10 * which + k + 1, D.GENERICS[E["generics"]]["tparam"])
        elif ty == "String":
            base = 'String::from("s%d%d")' % (which, k)
        elif ty == "str":
            base = '"r%d%d"' % (which, k)
        elif ty == "char":
            base = "'%s'" % "abcdefghijklmnopqrstuvwxyz"[(13 * (which - 1) + k) % 26]
        elif ty == "opt":
            base = "Some(%du8)" % (10 * which + k)
        elif ty == "bool":
            base = "true" if (which + k) % 2 else "false"
        elif ty == "uopt":
            base = "user_scope::Option(%du8)" % (10 * which + k)
        out.append(base)
    return out


def isas_module(E, facts):
    decl = D.print_enum(E, ["EnumIs", "EnumTryAs"])
    if any(f["ty"] == "uopt" for v in E["variants"] for f in v["fields"]):
        # the enum's module defines its own type called `Option` (a command-line option, say) and a field mentions it: whatever the
        # derive brings into scope must not capture the user's tokens
        decl = ("pub mod user_scope {\n    #[derive(Debug, Clone, PartialEq, Default)]\n    pub struct Option(pub u8);\n%s\n}\npub use user_scope::%s;"
                % ("\n".join("    " + l for l in decl.splitlines()), E["name"]))
    src = SG.HEADER + decl + "\n"
    did = E["id"]
    en = [(i, v) for i, v in enumerate(E["variants"]) if not v["dis"]]
    dis = [(i, v) for i, v in enumerate(E["variants"]) if v["dis"]]
    snake = [uncp(s) for s in facts["snake"]]
    # no method may exist for a disabled variant.  Inherent methods take precedence over trait methods, so a fallback trait
    # with the same names answers (false / None) exactly when the derive generated nothing of that name.
    if dis:
        src += "pub trait NoSuchMethod {\n"
        for (j, w) in dis:
            src += "    fn is_%s(&self) -> bool { false }\n" % snake[j]
            if w["kind"] == "tuple":
                src += "    fn try_as_%s_ref(&self) -> Option<()> { None }\n" % snake[j]
        src += "}\n%s {}\n" % D.impl_header(E).replace("impl", "impl", 1).replace(" " + E["name"], " NoSuchMethod for " + E["name"], 1)
    body = []
    for i, v in enumerate(E["variants"]):
        k = i + 1
        if len(E["variants"]) > 64 and not (i < 9 or i % 16 in (0, 15) or i > len(E["variants"]) - 45 or v["kind"] != "unit" or v["dis"]):
            continue          # a very large enum: values around the multiples of 16 and the tail, each against EVERY method
        vals = _vals(E, v, 1)
        new = _vals(E, v, 2)
        blk = ["    {", "        let r = catch(|| {"]
        for n, ex in enumerate(vals):
            blk.append("            let v%d = %s; let n%d = %s;" % (n, ex, n, new[n]))
        blk.append("            let want: Vec<String> = vec![%s];" % ", ".join('jcps(&format!("{:?}", v%d))' % n for n in range(len(vals))))
        blk.append("            let want2: Vec<String> = vec![%s];" % ", ".join('jcps(&format!("{:?}", n%d))' % n for n in range(len(vals))))
        blk.append("            let x = %s;" % D.ctor(E, v, vals=["v%d.clone()" % n for n in range(len(vals))]))
        # every predicate
        ms = []
        for (j, w) in en:
            nm = "is_" + snake[j]
            ms.append('format!("{{\\"j\\":%d,\\"name\\":{},\\"val\\":{}}}", jcps("%s"), jbool(x.%s()))' % (j + 1, nm, nm))
        blk.append("            let m: Vec<String> = vec![%s];" % ", ".join(ms))
        ds = []
        for (j, w) in dis:
            nm = "is_" + snake[j]
            some = ("x.try_as_%s_ref().is_some()" % snake[j]) if w["kind"] == "tuple" else "false"
            ds.append('format!("{{\\"j\\":%d,\\"name\\":{},\\"val\\":{},\\"some\\":{}}}", jcps("%s"), jbool(x.%s()), jbool(%s))' % (j + 1, nm, nm, some))
        blk.append("            let d: Vec<String> = vec![%s];" % ", ".join(ds))
        blk.append('            o.line(&format!("{{\\"op\\":\\"is\\",\\"def\\":%d,\\"i\\":%d,\\"m\\":{},\\"d\\":{}}}", jlist(&m), jlist(&d)));' % (did, k))
        # every try_as method
        for (j, w) in en:
            if w["kind"] != "tuple":
                continue
            ar = len(w["fields"])
            base = "try_as_" + snake[j]
            pat = {0: "Some(())", 1: "Some(a0)"}.get(ar, "Some((%s))" % ", ".join("a%d" % q for q in range(ar)))
            rend = "vec![%s]" % ", ".join('jcps(&format!("{:?}", a%d))' % q for q in range(ar))
            rd = "match &y { %s => vec![%s], _ => Vec::<String>::new() }" % (
                D.pattern(E, w, ["a%d" % q for q in range(ar)]) if ar else D.pattern(E, w, []),
                ", ".join('jcps(&format!("{:?}", a%d))' % q for q in range(ar)))
            for mode, suffix, call in (("val", "", "x.clone().%s()" % base), ("ref", "_ref", "x.%s_ref()" % base)):
                blk.append("            { let (some, fields) = match %s { %s => (true, %s), _ => (false, Vec::<String>::new()) };" % (call, pat, rend))
                blk.append('              o.line(&format!("{{\\"op\\":\\"tryas\\",\\"def\\":%d,\\"i\\":%d,\\"j\\":%d,\\"mode\\":\\"%s\\",\\"name\\":{},\\"suffix\\":{},\\"some\\":{},\\"fields\\":{},\\"want\\":{},\\"after\\":[],\\"want2\\":[]}}", jcps("%s%s"), jcps("%s"), jbool(some), jlist(&fields), jlist(&want))); }'
                           % (did, k, j + 1, mode, base, suffix, suffix))
            # mut: write through the references, then re-read the value directly
            writes = " ".join("*a%d = n%d.clone();" % (q, q) for q in range(ar)) if i == j else ""
            blk.append("            { let mut y = x.clone();")
            blk.append("              let (some, fields) = match y.%s_mut() { %s => { let f = %s; %s (true, f) }, _ => (false, Vec::<String>::new()) };" % (base, pat, rend, writes))
            blk.append("              let after: Vec<String> = %s;" % rd)
            blk.append('              o.line(&format!("{{\\"op\\":\\"tryas\\",\\"def\\":%d,\\"i\\":%d,\\"j\\":%d,\\"mode\\":\\"mut\\",\\"name\\":{},\\"suffix\\":{},\\"some\\":{},\\"fields\\":{},\\"want\\":{},\\"after\\":{},\\"want2\\":{}}}", jcps("%s_mut"), jcps("_mut"), jbool(some), jlist(&fields), jlist(&want), jlist(&after), jlist(&want2))); }'
                       % (did, k, j + 1, base))
        blk += ["        });", SG._ev_panic(did, k), "    }"]
        body += blk
    src += IG.RUN + "\n".join(body) + "\n}\n"
    return src


# --------------------------------------------------------------------------- EnumMessage (C14)
DOC_LINES = ["", " ", " first\nsecond", "  two leading", " one leading", "none leading", "   three", " quote \" and \\ backslash", " braces {x} {{y}}", " é ünï €",
             "\ttab", " trailing ", "  ", " /// nested", " * star"]
MSGS = ["", "msg", "Message with {braces}", "üni", " lead", "quote\"d", "multi\nline"]


def msg_def(rng, did):
    n = rng.choice([1, 2, 3, 4, 5])
    idents = rng.sample(SC.IDENTS, n)
    vs = []
    for ident in idents:
        v = SC.rand_variant(rng, ident, "none", allow_default=False, lits=SC.NAME_LITS + ["a{b}"], p_lit=0.5)
        v["dwith"] = ""
        for f in v["fields"]:
            f["dw"] = ""
        v["aci"] = 2
        if rng.random() < 0.6:
            v["msg"] = [cp(rng.choice(MSGS))]
        if rng.random() < 0.4:
            v["dmsg"] = [cp(rng.choice(MSGS) + rng.choice(["!", "!", ""]))]
        v["docs"] = [cp(rng.choice(DOC_LINES)) for _ in range(rng.choice([0, 0, 1, 1, 2, 3, 4]))]
        if rng.random() < 0.3:
            v["docattrs"] = [(rng.randrange(len(v["docs"]) + 1), rng.choice(["#[doc(hidden)]", '#[doc(alias = "nick")]']))]
        vs.append(v)
    return enum(did, vs, style=rng.choice(["none", "none", "snake_case", "SCREAMING-KEBAB-CASE", "title_case", "camelCase"]),
                prefix=rng.choice([None, None, "p_"]), split=rng.randrange(2), aci=rng.random() < 0.3)


def msg_special(did, k):
    shapes = [
        [variant("Gerbil", dis=True, dmsg="a very hidden gerbil"), variant("Cat", msg="cat")],
        [variant("Rat", dis=True, msg="rat", dmsg="a very hidden rat", docs=[" hidden"]), variant("Dog", dmsg="only detail")],
        [variant("Tab", docs=["\ttab first"]), variant("Nbsp", docs=["\u00a0nbsp first", "\u3000wide"]), variant("Sp", docs=["  two", " one", "none", ""])],
        [variant("Unknown", "tuple", [field("String")], default=True, ts="unrecognised", ser=["u1", "u-two"], msg="m"), variant("Known", msg="k", docs=[" d"])],
        [variant("Low", msg="l", dmsg="ld", docs=[" low"]), variant("Internal", dis=True, msg="i", dmsg="id", docs=[" internal"]), variant("High", msg="h", dmsg="hd", docs=[" high"])],
        [variant("Kilo", ser=["kB", "KB", "kilobyte"], aci=1), variant("Mega", ser=["mb"], ts="MB", aci=1, acif=1), variant("Giga", ser=["gb", "GB!"], aci=0)],
        [variant("Block", docs=[" first\nsecond"]), variant("Block2", docs=[" a\n b\n"]), variant("Two", docs=[" x\ny", " z"]), variant("Plain", docs=[" one"])],
        # an attribute that is present but empty is not an absent attribute
        [variant("Short", msg="short", dmsg=""), variant("OnlyDetail", dmsg=""), variant("EmptyMsg", msg=""), variant("EmptyBoth", msg="", dmsg=""),
         variant("EmptySer", ser=[""]), variant("EmptyDoc", docs=[""])],
        # generic parameters with defaults (a default is written on the enum, never on an impl)
        ([variant("Slot", "tuple", [field("T")], msg="slot", dmsg=""), variant("Empty", dmsg="e", docs=[" d"]), variant("Off", "tuple", [field("T")], dis=True, msg="off")],
         dict(generics="tydef")),
        ([variant("Buf", "tuple", [field("arr")], msg="buf"), variant("Nil", docs=[" nil"])], dict(generics="constdef")),
        ([variant("Both", "named", [field("T", "t"), field("arr", "a")], dmsg="both"), variant("Nil", msg="")], dict(generics="tyconst")),
    ]
    sh = shapes[k % len(shapes)]
    return enum(did, sh[0], **sh[1]) if isinstance(sh, tuple) else enum(did, sh)


MSG_SPECIALS = 11


def msg_module(E):
    src = SG.HEADER + D.in_user_scope(D.print_enum(E, ["EnumMessage"]), E) + "\n"
    if E["id"] % 2:
        src += D.decoy_impl(E, "EnumMessage")
    did = E["id"]
    body = []
    for i, v in enumerate(E["variants"]):
        k = i + 1
        body += ["    {", "        let r = catch(|| {", "            let x = %s;" % D.ctor(E, v, 1),
                 "            use strum::EnumMessage;",
                 '            o.line(&format!("{{\\"op\\":\\"msg\\",\\"def\\":%d,\\"i\\":%d,\\"message\\":{},\\"detail\\":{},\\"doc\\":{},\\"sers\\":{}}}", jopt_cps(EnumMessage::get_message(&x)), jopt_cps(EnumMessage::get_detailed_message(&x)), jopt_cps(EnumMessage::get_documentation(&x)), jstrs(EnumMessage::get_serializations(&x))));' % (did, k),
                 "        });", SG._ev_panic(did, k), "    }"]
        if E["id"] % 2 == 0:
            # the same getters with method-call syntax through receivers of type `&&E` and `&mut E`
            body += ["    {", "        let r = catch(|| {", "            let mut x = %s;" % D.ctor(E, v, 1),
                     "            use strum::EnumMessage;",
                     "            let (m, d) = { let rr = &&x; (jopt_cps(rr.get_message()), jopt_cps(rr.get_detailed_message())) };",
                     "            let (c, s) = { let mm = &mut x; (jopt_cps(mm.get_documentation()), jstrs(mm.get_serializations())) };",
                     '            o.line(&format!("{{\\"op\\":\\"msg\\",\\"def\\":%d,\\"i\\":%d,\\"message\\":{},\\"detail\\":{},\\"doc\\":{},\\"sers\\":{}}}", m, d, c, s));' % (did, k),
                     "        });", SG._ev_panic(did, k), "    }"]
    src += IG.RUN + "\n".join(body) + "\n}\n"
    return src


# --------------------------------------------------------------------------- EnumProperty (C15)
KEYS = ["color", "Color", "n", "size", "type", "fn", "self", "key_1", "k", "K", "length", "is_ok", "x", "crate", "red",
        "disabled", "default", "serialize", "message", "props", "gr\u00f6\u00dfe", "\u00f6ffnen", "cl\u00e9",
        "threshold_min", "threshold_max", "description_long_form", "description_long_from"]
INTS = [(0, "0"), (1, "1"), (-1, "-1"), (42, "42"), (255, "0xFF"), (1000, "1_000"), (7, "7i64"), (-17, "-17"),
        (2**63 - 1, "9223372036854775807"), (-2**63, "-9223372036854775808"), (8, "0o10"), (5, "0b101"), (-255, "-0xff"),
        (255, "0xFFi64"), (493, "0o755i64"), (10, "0b1010_i64"), (255, "0xff_i64"), (1000, "1_000i64"), (16, "16i64")]
STRS = ["", "red", "Red", "with \"quote\"", "é€", "true", "1", "multi word", "{brace}"]


def prop_def(rng, did):
    n = rng.choice([1, 2, 3, 4])
    idents = rng.sample(SC.IDENTS, n)
    keys = rng.sample(KEYS, rng.choice([2, 3, 5]))
    vs = []
    for ident in idents:
        kind = rng.choice(["unit", "unit", "tuple", "named"])
        nf = 0 if kind == "unit" else rng.choice([1, 2])
        fs = SC.rand_fields(rng, kind, nf, "none")
        v = variant(ident, kind, fs, dis=rng.random() < 0.12)
        props = []
        ngroups = rng.choice([1, 1, 2, 3])
        for _ in range(rng.choice([0, 1, 2, 3, 4, 6])):
            key = rng.choice(keys)
            ty = rng.choice("sib")
            keyname = key[2:] if key.startswith("r#") else key
            if ty == "s":
                val = cp(rng.choice(STRS)); srcv = ""
            elif ty == "i":
                iv, srcv = rng.choice(INTS); val = cp(str(iv))
            else:
                b = rng.random() < 0.5; val = [1] if b else [0]; srcv = "true" if b else "false"
            props.append(dict(key=cp(keyname), keysrc=key, ty=ty, val=val, src=srcv, grp=rng.randrange(ngroups)))
        # group order = attribute order: sort by group, stable
        props.sort(key=lambda p: p["grp"])
        v["props"] = props
        IG.decorate(rng, v)
        vs.append(v)
    return enum(did, vs, split=rng.randrange(2), aci=rng.random() < 0.3)


def prop_special(did, k):
    def P(key, ty, val, grp, src=""):
        return dict(key=cp(key), keysrc=key, ty=ty, val=(cp(val) if ty != "b" else val), src=src, grp=grp)
    shapes = [
        # the same key with several literal types on one variant, in one group and across groups
        [variant("Big", props=[P("size", "s", "large", 0), P("size", "i", "3", 1, "3"), P("type", "i", "7", 1, "7"), P("type", "s", "seven", 1), P("type", "b", [0], 1, "false")]),
         variant("Small", props=[P("size", "i", "1", 0, "1")])],
        # a disabled variant with props is followed by enabled ones
        [variant("First", props=[P("colour", "s", "red", 0)]), variant("Hidden", dis=True, props=[P("colour", "s", "grey", 0), P("closed", "b", [1], 0, "true")]),
         variant("Second", "tuple", [field("u8")], props=[P("colour", "s", "blue", 0)]), variant("Last")],
    ]
    shapes.append([variant("Before", dis=True), variant("Lone", props=[P("colour", "s", "red", 0), P("n", "i", "4", 0, "4"), P("ok", "b", [1], 0, "true")]),
                   variant("After", "tuple", [field("u8")], dis=True, props=[P("colour", "s", "grey", 0)])])
    shapes.append([variant("EmptyTuple", "tuple", [], props=[P("k", "s", "t", 0)]), variant("EmptyNamed", "named", [], props=[P("k", "s", "n", 0)]), variant("Unit", props=[P("k", "s", "u", 0)])])
    shapes.append([variant("Text", props=[P("level", "s", "3", 0), P("on", "s", "true", 0), P("width", "s", "16", 0)]),
                   variant("Number", props=[P("level", "i", "3", 0, "3"), P("on", "b", [1], 0, "true"), P("width", "i", "16", 0, "0x10")]),
                   variant("Same", props=[P("level", "s", "3", 0), P("on", "s", "true", 0), P("width", "s", "16", 0)])])
    shapes.append([variant("V%03d" % i, "tuple" if i == 200 else "unit", [field("u8")] if i == 200 else [],
                           props=([P("tag", "s", "low", 0), P("n", "i", "3", 0, "3")] if i == 3 else
                                  [P("mark", "b", [1], 0, "true"), P("n", "i", "259", 0, "259")] if i == 259 else []))
                   for i in range(300)])
    E = enum(did, shapes[(k if k < 2 else k - 1) % len(shapes)])
    if k == 2:
        E = enum(did, [variant("Room", props=[P("Room", "s", "201", 0), P("room", "i", "7", 0, "7")], aci=1), variant("Plain", props=[P("Key", "s", "true", 0)])], aci=True)
    return E


def prop_extra(did):
    """shapes written down after the sampled definitions (so that those keep their ids): keys of other derives next to props"""
    def P(key, ty, val, grp, src=""):
        return dict(key=cp(key), keysrc=key, ty=ty, val=(cp(val) if ty != "b" else val), src=src, grp=grp)
    # `default` (EnumString / Display), `transparent`, `to_string`, `default_with` mean nothing to EnumProperty: the variant is an ordinary enabled one
    return [enum(did, [variant("Known", props=[P("kind", "s", "word", 0)]),
                       variant("Other", "tuple", [field("String")], default=True, props=[P("kind", "s", "ident", 0), P("weight", "i", "0", 0, "0")]),
                       variant("Wrap", "tuple", [field("sstr")], transp=True, props=[P("kind", "s", "wrapped", 0), P("ok", "b", [1], 0, "true")]),
                       variant("Named", "tuple", [field("u8")], ts="named", dwith="dw_u8", props=[P("weight", "i", "-3", 0, "-3")])]),
            enum(did + 1, [variant("Other", "named", [field("String", "text")], default=True, props=[P("n", "i", "1", 0, "1")]), variant("Last", props=[P("n", "i", "2", 0, "2")])])]


def prop_module(E, rng):
    src = SG.HEADER + D.in_user_scope(D.print_enum(E, ["EnumProperty"]), E) + "\n"
    if E["id"] % 2:
        src += D.decoy_impl(E, "EnumProperty")
    did = E["id"]
    allkeys = []
    for v in E["variants"]:
        for p in v["props"]:
            ks = uncp(p["key"])
            tail = ks[:-1] + chr(ord(ks[-1]) ^ 1) if ks and ord(ks[-1]) < 128 else ks + "x"      # same length, same beginning, another last byte
            mid = ks[:len(ks) // 2] + chr(ord(ks[len(ks) // 2]) ^ 2) + ks[len(ks) // 2 + 1:] if ks and ord(ks[len(ks) // 2]) < 128 else ks
            for cand in (ks, ks.upper(), ks.lower(), ks.capitalize(), ks + "_", "_" + ks, ks[:-1], ks + ks, " " + ks, tail, mid):
                if cand not in allkeys:
                    allkeys.append(cand)
    for cand in ["", "zz", "prop", "é", "color ", "\0"]:
        if cand not in allkeys:
            allkeys.append(cand)
    keys_rs = ", ".join(rs_str(cp(k)) for k in allkeys)
    body = ["    let keys: Vec<&str> = vec![%s];" % keys_rs]
    for i, v in enumerate(E["variants"]):
        k = i + 1
        body += ["    {", "        let r = catch(|| {", "            let x = %s;" % D.ctor(E, v, 1), "            use strum::EnumProperty;",
                 "            let strs: Vec<String> = keys.iter().map(|q| jopt_cps(EnumProperty::get_str(&x, q))).collect();",
                 "            let ints: Vec<String> = keys.iter().map(|q| match EnumProperty::get_int(&x, q) { Some(n) => format!(\"[{}]\", jcps(&n.to_string())), None => \"[]\".to_string() }).collect();",
                 "            let bools: Vec<String> = keys.iter().map(|q| match EnumProperty::get_bool(&x, q) { Some(b) => format!(\"[[{}]]\", b as u8), None => \"[]\".to_string() }).collect();",
                 '            o.line(&format!("{{\\"op\\":\\"prop\\",\\"def\\":%d,\\"i\\":%d,\\"keys\\":{},\\"strs\\":{},\\"ints\\":{},\\"bools\\":{}}}", jstrs(&keys), jlist(&strs), jlist(&ints), jlist(&bools)));' % (did, k),
                 "        });", SG._ev_panic(did, k), "    }"]
        if E["id"] % 2 == 0:
            # the same questions asked with method-call syntax through receivers of type `&&E` (the parameter of `iter().filter(|v| ..)`) and
            # `&mut E`: whatever implementation the call resolves to, the answers are those of the variant
            body += ["    {", "        let r = catch(|| {", "            let mut x = %s;" % D.ctor(E, v, 1), "            use strum::EnumProperty;",
                     "            let strs: Vec<String> = { let rr = &&x; keys.iter().map(|q| jopt_cps(rr.get_str(q))).collect() };",
                     "            let bools: Vec<String> = { let rr = &&x; keys.iter().map(|q| match rr.get_bool(q) { Some(b) => format!(\"[[{}]]\", b as u8), None => \"[]\".to_string() }).collect() };",
                     "            let ints: Vec<String> = { let m = &mut x; keys.iter().map(|q| match m.get_int(q) { Some(n) => format!(\"[{}]\", jcps(&n.to_string())), None => \"[]\".to_string() }).collect() };",
                     '            o.line(&format!("{{\\"op\\":\\"prop\\",\\"def\\":%d,\\"i\\":%d,\\"keys\\":{},\\"strs\\":{},\\"ints\\":{},\\"bools\\":{}}}", jstrs(&keys), jlist(&strs), jlist(&ints), jlist(&bools)));' % (did, k),
                     "        });", SG._ev_panic(did, k), "    }"]
    src += IG.RUN + "\n".join(body) + "\n}\n"
    return src
