"""Definitions and driver modules for EnumIter / EnumCount / VariantNames / VariantArray (C04, C05, C08)."""
import itertools, random
from . import defs as D, strcorpus as SC, strgen as SG
from .defs import variant, enum, field
from .core import uncp

IDS = ["Alpha", "Beta", "Gamma", "Delta", "Eps", "Zeta", "Eta", "Theta", "Iota", "Kappa", "Lambda", "Mu"]


# variant identifiers that also name things generated code mentions (associated types, prelude items)
TIDS = ["None", "Discriminant", "type", "Err", "Error", "Iterator", "fn", "Output", "Default", "\u00c9clair", "match", "Some"]


# ... and lower-case identifiers that coincide with the names of locals and parameters in generated code
LIDS = ["idx", "f", "s", "v", "val", "value", "key", "i", "n", "item", "other", "index"]      # (not x, d, e: the drivers bind values of the enum type under those names)


class _Ids(list):
    """an identifier list that goes on (`Var12`, `Var13`, ...) when a definition has more variants than names"""
    def __getitem__(self, i):
        return list.__getitem__(self, i) if i < len(self) else "Var%d" % i


def ids_for(did):
    return _Ids(TIDS if did % 5 == 4 else LIDS if did % 5 == 2 else IDS)


def shape(rng, did, n, mask, kinds="mixed", generics="none", style="none"):
    """n variants, mask[i] = disabled"""
    vs = []
    IDS = ids_for(did)
    for i in range(n):
        kind = "unit" if kinds == "unit" else rng.choice(["unit", "unit", "tuple", "named"])
        nf = 0 if kind == "unit" else rng.choice([0, 1, 2])
        fs = SC.rand_fields(rng, kind, nf, generics)
        v = variant(IDS[i], kind, fs, dis=bool(mask[i]))
        decorate(rng, v)
        vs.append(v)
    E = enum(did, vs, generics=generics, style=style, split=rng.randrange(2))
    if kinds != "unit":
        SC.ensure_generic_use(rng, E)
    return E


def decorate(rng, v):
    """attributes other derives consume and non-strum attributes, independently of each other, so that `disabled` is met
    alone, inside a longer list, in a separate attribute, and with doc comments / #[allow] before, between and after"""
    if rng.random() < 0.25:
        v["msg"] = [[109]]
    if rng.random() < 0.25:
        v["ser"] = [[120, 48 + rng.randrange(10)]]
    if rng.random() < 0.2:
        v["docs"] = [[32, 100]] + ([[32, 101]] if rng.random() < 0.3 else [])
    if rng.random() < 0.12:
        v["aci"] = rng.choice([0, 1])           # consumed by EnumString only; every other derive must ignore it
    if rng.random() < 0.15:
        v["xattrs"] = ["#[allow(dead_code)]"]    # a non-strum attribute next to the strum ones
    if v["dis"] and v["fields"] and not v.get("def") and rng.random() < 0.35:
        v["fields"][0]["ty"] = "panicdef"     # evaluating this payload's Default panics; the variant is disabled, so nobody may
        v["fields"][0]["dw"] = ""
        v["dwith"] = ""
    if rng.random() < 0.2:
        v["docattrs"] = [(rng.randrange(3), rng.choice(["#[doc(hidden)]", '#[doc(alias = "nick")]']))]
    # a property KEY that reads like a keyword (props are consumed by EnumProperty only)
    if not v.get("props") and rng.random() < 0.1:
        k = rng.choice(["disabled", "default", "transparent"])
        v["props"] = [dict(key=[ord(c) for c in k], keysrc=k, ty="s", val=[ord(c) for c in "true"], src="", grp=0)]
    # string VALUES whose text reads like a keyword: an attribute's text is not its structure
    r = rng.random()
    if r < 0.1:
        v["ser"] = [[ord(c) for c in rng.choice(["disabled", "default", "transparent, disabled"])]]
    elif r < 0.18:
        v["msg"] = [[ord(c) for c in "not disabled, default"]]
    # attributes of EnumString on payload variants: `default` (single String field) and default_with - every other derive
    # ignores them (a default variant can still be disabled; payloads stay Default::default())
    if v["kind"] == "tuple" and len(v["fields"]) == 1 and v["fields"][0]["ty"] == "String" and rng.random() < 0.5:
        v["def"] = True
    elif v["kind"] == "tuple" and len(v["fields"]) == 1 and v["fields"][0]["ty"] in ("u8", "i32", "bool", "String", "opt", "tricky") and rng.random() < 0.4:
        v["dwith"] = D.TYPES[v["fields"][0]["ty"]][4]
    elif v["kind"] == "named" and rng.random() < 0.4:
        for f in v["fields"]:
            if f["ty"] in ("u8", "i32", "bool", "String", "opt", "tricky"):
                f["dw"] = D.TYPES[f["ty"]][4]
    if v["dis"] and rng.random() < 0.4 and not v["def"] and not v.get("dwith"):
        split_disabled(rng, v)
    return v


def split_disabled(rng, v):
    """`disabled` in a LATER #[strum(..)] attribute, separated from an earlier one by a non-strum attribute"""
    lit = [104, 48 + rng.randrange(10)]
    v["ser"], v["msg"], v["docs"], v["xattrs"], v["aci"] = [lit], [], [], [], 2
    v["raw"] = ['#[strum(serialize = "%s")]' % "".join(chr(c) for c in lit), "#[allow(dead_code)]", "#[strum(disabled)]"]
    return v


def send_sync_check(E):
    g = E["generics"]
    inst = {"none": "", "ty": "<std::rc::Rc<u8>>", "tywhere": "<std::rc::Rc<u8>>", "const": "<3>", "tyconst": "<std::rc::Rc<u8>, 2>",
            "tydef": "<std::rc::Rc<u8>>", "constdef": "<3>", "tynd": "<NoDef>", "tyq": "<str>"}[g]
    return ("fn _assert_send_sync<X: Send + Sync>() {}\nfn _check_send_sync() { _assert_send_sync::<%sIter%s>(); }\n" % (E["name"], inst))


def probe_nocapture(E):
    return ("%s\n%s\nimpl Probe for %s {\n    fn decl_index(&self) -> usize { %s::decl_index(self) }\n"
            "    fn payload_ok(&self) -> bool { payload_ok(self) }\n    fn captured(&self) -> Option<String> { None }\n}\n"
            % (D.helper_impl(E), D.payload_ok_fn(E, honour_default_with=False), D.inst(E), E["name"]))


PROF = '    let prof = if cfg!(debug_assertions) { "dev" } else { "release" };\n'
RUN = "pub fn run(o: &mut Out, ins: &std::collections::HashMap<u32, Vec<String>>, seed: u64) {\n"


def default_disabled_def(did, pos):
    """a catch-all (`default`) variant that is also `disabled`, first / in the middle / last: it is a disabled variant like any other"""
    other = variant("Other", "tuple", [field("String")], default=True, dis=True)
    vs = [variant("A"), variant("B", "tuple", [field("u8")]), variant("Off", dis=True), variant("C", "named", [field("bool", "flag")])]
    vs.insert({"first": 0, "middle": 2, "last": len(vs)}[pos], other)
    return enum(did, vs)


def nodefault_def(did):
    """a type parameter WITHOUT a Default bound (instantiated with a type that has none) under payloads that are Default for every T"""
    return enum(did, [variant("Unit"), variant("Opt", "tuple", [field("optT")]), variant("Named", "named", [field("phT", "p"), field("u8", "n")]),
                      variant("Off", "tuple", [field("optT")], dis=True)], generics="tynd")


def unsized_def(did):
    """a type parameter that may be unsized (`T: ?Sized`, instantiated with str): every generated item has to repeat the bound"""
    return enum(did, [variant("Leaf"), variant("Boxed", "tuple", [field("optboxT")]), variant("Off", dis=True),
                      variant("Tag", "named", [field("phT", "of"), field("u8", "n")])], generics="tyq")


def selfref_def(did):
    """a recursive enum whose own Default is written through its iterator ("the first variant"): well founded as long as an
    item is built only when it is yielded"""
    E = enum(did, [variant("Leaf"), variant("Branch", "tuple", [field("boxself")]), variant("Off", dis=True),
                   variant("Pair", "named", [field("boxself", "next"), field("u8", "n")])])
    E["extra_items"] = ("impl ::core::default::Default for %s { fn default() -> Self { "
                        "<%s as strum::IntoEnumIterator>::iter().next().unwrap() } }\n" % (E["name"], E["name"]))
    return E


def iter_module(E, depth, steps):
    n_en = sum(1 for v in E["variants"] if not v["dis"])
    src = SG.HEADER + D.in_user_scope(D.print_enum(E, ["EnumIter"]), E, exports=("Iter",)) + "\n" + probe_nocapture(E) + send_sync_check(E)
    if E["id"] % 2 == 0:
        src += D.BLANKET_TRAIT + D.decoys(E, ["EnumIter"])
    src += E.get("extra_items", "")
    it = "<%s as strum::IntoEnumIterator>::iter()" % D.inst(E)
    src += RUN + PROF
    src += "    iter_dfs(o, %d, prof, %d, %s, %d);\n" % (E["id"], n_en, it, depth)
    src += "    iter_random(o, %d, prof, %d, &|| %s, %d, seed);\n" % (E["id"], n_en, it, steps)
    src += "}\n"
    return src


def list_module(E):
    """C04: the whole list forwards/backwards, payloads, COUNT"""
    src = SG.HEADER + D.in_user_scope(D.print_enum(E, ["EnumIter", "EnumCount"]), E, exports=("Iter",)) + "\n" + probe_nocapture(E)
    if E["id"] % 2 == 0:
        src += D.BLANKET_TRAIT + D.decoys(E, ["EnumIter", "EnumCount"])
    src += E.get("extra_items", "")
    it = "<%s as strum::IntoEnumIterator>::iter()" % D.inst(E)
    src += RUN + PROF
    src += ("    let r = catch(|| {\n"
            "        let fwd: Vec<String> = %s.map(|x| x.decl_index().to_string()).collect();\n"
            "        let back: Vec<String> = %s.rev().map(|x| x.decl_index().to_string()).collect();\n"
            "        let pd: Vec<String> = %s.map(|x| jbool(x.payload_ok()).to_string()).collect();\n"
            "        let count = <%s as strum::EnumCount>::COUNT;\n"
            "        let len0 = %s.len();\n"
            "        format!(\"{{\\\"op\\\":\\\"itlist\\\",\\\"def\\\":%d,\\\"prof\\\":\\\"{}\\\",\\\"fwd\\\":{},\\\"back\\\":{},\\\"pd\\\":{},\\\"count\\\":{},\\\"len0\\\":{}}}\", prof, jlist(&fwd), jlist(&back), jlist(&pd), count, len0)\n"
            "    });\n"
            "    match r { Ok(e) => o.line(&e), Err(p) => o.line(&format!(\"{{\\\"op\\\":\\\"panic\\\",\\\"def\\\":%d,\\\"i\\\":0,\\\"msg\\\":{}}}\", jcps(&p))) }\n"
            % (it, it, it, D.inst(E), it, E["id"], E["id"]))
    src += "}\n"
    return src


def lists_module(E, array=True):
    """C08: COUNT, VariantNames, VariantArray and iter on a field-less enum (array=False: an enum with payloads, without VariantArray)"""
    ds = ["EnumIter", "EnumCount", "VariantNames"] + (["VariantArray"] if array else [])
    src = SG.HEADER + D.in_user_scope(D.print_enum(E, ds), E, exports=("Iter",)) + "\n" + probe_nocapture(E)
    if E["id"] % 2 == 0:
        src += D.BLANKET_TRAIT + D.decoys(E, ["EnumIter", "EnumCount", "VariantNames"])
    it = "<%s as strum::IntoEnumIterator>::iter()" % D.inst(E)
    src += RUN
    arr = ("<%s as strum::VariantArray>::VARIANTS.iter().map(|x| x.decl_index().to_string()).collect()" % D.inst(E)) if array else "Vec::new()"
    src += ("    let r = catch(|| {\n"
            "        let iter: Vec<String> = %s.map(|x| x.decl_index().to_string()).collect();\n"
            "        let iter_count = %s.count();\n"
            "        let count = <%s as strum::EnumCount>::COUNT;\n"
            "        let names = jstrs(<%s as strum::VariantNames>::VARIANTS);\n"
            "        let array: Vec<String> = %s;\n"
            "        format!(\"{{\\\"op\\\":\\\"lists\\\",\\\"def\\\":%d,\\\"noarr\\\":%s,\\\"count\\\":{},\\\"iter_count\\\":{},\\\"iter\\\":{},\\\"names\\\":{},\\\"array\\\":{}}}\", count, iter_count, jlist(&iter), names, jlist(&array))\n"
            "    });\n"
            "    match r { Ok(e) => o.line(&e), Err(p) => o.line(&format!(\"{{\\\"op\\\":\\\"panic\\\",\\\"def\\\":%d,\\\"i\\\":0,\\\"msg\\\":{}}}\", jcps(&p))) }\n"
            % (it, it, D.inst(E), D.inst(E), arr, E["id"], "false" if array else "true", E["id"]))
    src += "}\n"
    return src


# --------------------------------------------------------------------------- EnumTable (C10)
def table_def(did, mask, idents=None):
    idents = idents or IDS
    import random as _r
    rng = _r.Random(did * 7 + len(mask))
    vs = [decorate(rng, variant(idents[i], dis=bool(m))) for i, m in enumerate(mask)]
    if did % 3 == 1 and 2 <= len(vs) <= 9:
        # explicit discriminants, permuted / out of the 0..n range: a key is a variant, not a number
        vals = rng.sample([0, 1, 2, 3, 4, 5, 7, 40, 200], len(vs))
        for v, x in zip(vs, vals):
            v["disc"] = [x]
    return enum(did, vs, split=rng.randrange(2))


def table_module(E, depth, steps):
    n = E["name"]
    en = [i + 1 for i, v in enumerate(E["variants"]) if not v["dis"]]
    dis = [i + 1 for i, v in enumerate(E["variants"]) if v["dis"]]
    src = SG.HEADER + D.in_user_scope(D.print_enum(E, ["EnumTable"], std_derives=("Debug", "Clone", "Copy", "PartialEq")), E, exports=("Table",)) + "\n" + D.helper_impl(E) + "\n"
    src += "fn key(i: usize) -> %s { match i { %s _ => unreachable!() } }\n" % (
        n, " ".join("%d => %s::%s," % (i + 1, n, D.vid(v)) for i, v in enumerate(E["variants"])))
    src += "fn pos(i: usize) -> usize { match i { %s _ => unreachable!() } }\n" % " ".join("%d => %d," % (k, p) for p, k in enumerate(en))
    proj = "vec![%s]" % ", ".join("t[key(%d)]" % k for k in en)
    src += ("impl TableOps for %sTable<u8> {\n"
            "    fn enabled() -> Vec<usize> { vec![%s] }\n"
            "    fn disabled() -> Vec<usize> { vec![%s] }\n"
            "    fn new_from(a: &[u8]) -> Self { %sTable::new(%s) }\n"
            "    fn filled(x: u8) -> Self { %sTable::filled(x) }\n"
            "    fn from_closure(f: &dyn Fn(usize) -> u8) -> Self { %sTable::from_closure(|k: %s| f(k.decl_index())) }\n"
            "    fn transform(&self, f: &dyn Fn(usize, u8) -> u8) -> Self { %sTable::transform(self, |k: %s, old: &u8| f(k.decl_index(), *old)) }\n"
            "    fn read(&self, k: usize) -> u8 { self[key(k)] }\n"
            "    fn write(&mut self, k: usize, v: u8) { self[key(k)] = v; }\n"
            "    fn all(mask: &[bool]) -> Option<Vec<u8>> {\n"
            "        let t: %sTable<Option<u8>> = %sTable::from_closure(|k: %s| { let p = pos(k.decl_index()); if mask[p] { Some(11 + p as u8) } else { None } });\n"
            "        t.all().map(|t| %s)\n    }\n"
            "    fn all_ok(mask: &[bool]) -> ::core::result::Result<Vec<u8>, u8> {\n"
            "        let t: %sTable<::core::result::Result<u8, u8>> = %sTable::from_closure(|k: %s| { let p = pos(k.decl_index()); if mask[p] { Ok(11 + p as u8) } else { Err(1 + p as u8) } });\n"
            "        t.all_ok().map(|t| %s)\n    }\n"
            "    fn default_table() -> Self { Default::default() }\n"
            "}\n" % (n, ", ".join(map(str, en)), ", ".join(map(str, dis)), n, ", ".join("a[%d]" % p for p in range(len(en))),
                     n, n, n, n, n, n, n, n, proj, n, n, n, proj))
    src += ("#[derive(Default)] pub struct NotClone(pub u8);\n"
            "fn _default_needs_only_default<X: Default>() {}\nfn _check_default_bound() { _default_needs_only_default::<%sTable<NotClone>>(); }\n" % n)
    # only `filled` needs Clone values: everything else exists for a value type that is not Clone
    src += ("fn _non_clone_values() {\n"
            "    let t: %sTable<NotClone> = %sTable::new(%s);\n"
            "    let t2: %sTable<NotClone> = %sTable::from_closure(|_k: %s| NotClone(1));\n"
            "    let _t3: %sTable<u8> = t2.transform(|_k: %s, v: &NotClone| v.0);\n"
            "    let o: %sTable<Option<NotClone>> = %sTable::from_closure(|_k: %s| None); let _ = o.all();\n"
            "    let r: %sTable<::core::result::Result<NotClone, u8>> = %sTable::from_closure(|_k: %s| Err(1)); let _ = r.all_ok();\n"
            "    let _ = t;\n}\n" % (n, n, ", ".join("NotClone(%d)" % k for k in range(len(en))), n, n, n, n, n, n, n, n, n, n, n))
    src += RUN + "    table_drive::<%sTable<u8>>(o, %d, %d, %d, seed);\n" % (n, E["id"], depth, steps)
    # values that are shared handles: default() gives every slot its OWN default, so a change made through one slot's value shows in no other
    src += ("    { use std::rc::Rc; use std::cell::Cell;\n"
            "      let r = catch(|| { let t: %sTable<Rc<Cell<u8>>> = Default::default(); let mut rows: Vec<String> = Vec::new();\n"
            "        for w in [%s] { t[key(w)].set(5); let row: Vec<String> = [%s].iter().map(|k| t[key(*k)].get().to_string()).collect(); rows.push(format!(\"[{}]\", row.join(\",\"))); t[key(w)].set(0); }\n"
            "        rows });\n"
            "      match r { Ok(rows) => o.line(&format!(\"{{\\\"op\\\":\\\"tbalias\\\",\\\"def\\\":%d,\\\"rows\\\":[{}]}}\", rows.join(\",\"))),\n"
            "                Err(p) => o.line(&format!(\"{{\\\"op\\\":\\\"panic\\\",\\\"def\\\":%d,\\\"i\\\":0,\\\"msg\\\":{}}}\", jcps(&p))) } }\n"
            % (n, ", ".join(map(str, en)), ", ".join(map(str, en)), E["id"], E["id"]))
    src += "}\n"
    return src
