"""Pipeline steps shared by the checks: domain pass (TLC judges candidates), crate writing, building with
per-definition failure localisation, running drivers, assembling and validating traces."""
import json, os, re, shutil, subprocess, time
from . import core, defs as D
from .core import cp, uncp, log, ToolError


# --------------------------------------------------------------------------- domain pass
def domain_pass(cands, tag, module="Domain"):
    """Let the specification judge candidate definitions; returns {id: facts}."""
    wd = core.workdir("dom_" + tag)
    inp = os.path.join(wd, "cands.ndjson")
    outp = os.path.join(wd, "facts.ndjson")
    with open(inp, "w") as f:
        for E in cands:
            f.write(D.dumps(E) + "\n")
    cfg = os.path.join(wd, "Domain.cfg")
    open(cfg, "w").write("")
    out = core.tlc_eval(module + ".tla", cfg, "dom_" + tag, env=dict(DEFS=inp, OUT=outp))
    if not os.path.exists(outp):
        raise ToolError("domain pass failed:\n" + out[-3000:])
    facts = {}
    for l in open(outp):
        r = json.loads(l)
        facts[r["id"]] = r
    if len(facts) != len(cands):
        raise ToolError("domain pass returned %d facts for %d candidates" % (len(facts), len(cands)))
    return facts


# --------------------------------------------------------------------------- crates
def write_crate(pkg, files, strum_features=("derive",), no_default=False, extra_deps="", bins=None):
    """files: {relative path under src/: text}.  Written to a temp dir and renamed into harness/gen/<pkg>."""
    final = os.path.join(core.HARNESS, "gen", pkg)
    tmp = os.path.join(core.WORK, "crate_" + pkg + ".tmp")
    shutil.rmtree(tmp, ignore_errors=True)
    os.makedirs(os.path.join(tmp, "src"))
    feats = ", ".join('"%s"' % f for f in strum_features)
    toml = ('[package]\nname = "%s"\nversion = "0.0.0"\nedition = "2021"\n\n[dependencies]\n'
            'vsupport = { path = "../../vsupport" }\n'
            'strum = { path = "%s/strum", default-features = %s, features = [%s] }\n%s'
            % (pkg, core.REPO, "false" if no_default else "true", feats, extra_deps))
    open(os.path.join(tmp, "Cargo.toml"), "w").write(toml)
    for rel, txt in files.items():
        p = os.path.join(tmp, "src", rel)
        os.makedirs(os.path.dirname(p), exist_ok=True)
        open(p, "w").write(txt)
    shutil.rmtree(final, ignore_errors=True)
    os.makedirs(os.path.dirname(final), exist_ok=True)
    os.rename(tmp, final)
    return final


def main_rs(def_ids, inputs_arg=True):
    lines = ["#![allow(warnings)]", "use vsupport::*;"]
    for i in def_ids:
        lines.append("mod d%d;" % i)
    lines.append("fn main() {")
    lines.append("    let args: Vec<String> = std::env::args().collect();")
    lines.append("    quiet_panics();")
    lines.append("    let mut o = Out::create(&args[1]);")
    lines.append("    let ins = if args.len() > 2 { load_inputs(&args[2]) } else { Default::default() };")
    lines.append("    let seed: u64 = if args.len() > 3 { args[3].parse().unwrap() } else { 1 };")
    lines.append("    let skip: Vec<u32> = if args.len() > 4 { args[4].split(',').filter_map(|x| x.parse().ok()).collect() } else { Vec::new() };")
    for i in def_ids:
        # a panic that escapes a driver is data about definition i, not a tool error
        lines.append("    if !skip.contains(&%d) { o.begin(%d); }" % (i, i))
        lines.append("    if skip.contains(&%d) {} else if let Err(p) = catch(std::panic::AssertUnwindSafe(|| d%d::run(&mut o, &ins, seed))) { o.line(&format!(\"{{\\\"op\\\":\\\"panic\\\",\\\"def\\\":%d,\\\"i\\\":0,\\\"msg\\\":{}}}\", jcps(&p))); }" % (i, i, i))
    lines.append("    o.finish();")
    lines.append("}")
    return "\n".join(lines) + "\n"


_DEF_FILE = re.compile(r"src/d(\d+)\.rs$")


def failing_defs(diags):
    """map compiler errors to the definition files they are reported in: {def id: [messages]}"""
    bad = {}
    for m in diags:
        if m.get("level") != "error":
            continue
        ids = set()

        def walk_span(sp):
            mm = _DEF_FILE.search(sp.get("file_name", ""))
            if mm:
                ids.add(int(mm.group(1)))
            if sp.get("expansion"):
                walk_span(sp["expansion"]["span"])
        for sp in m.get("spans", []):
            walk_span(sp)
        for ch in m.get("children", []):
            for sp in ch.get("spans", []):
                walk_span(sp)
        for i in ids:
            bad.setdefault(i, []).append(m.get("message", ""))
        if not ids:
            bad.setdefault(-1, []).append(m.get("rendered") or m.get("message", ""))
    return bad


def build_corpus(pkg, def_files, strum_features=("derive",), release=False, max_rounds=4, no_default=False,
                 extra_files=None):
    """Build a crate of one module per definition.  Definitions whose module does not compile are removed and
    reported (an in-domain definition that does not compile is a finding, decided by the caller).
    Returns (exe path or None, {def id: [error messages]})."""
    ids = sorted(def_files)
    if core.only_defs() is not None:
        ids = [i for i in ids if i in core.only_defs()]
    failed = {}
    for rnd in range(max_rounds):
        files = {"d%d.rs" % i: def_files[i] for i in ids}
        files["main.rs"] = main_rs(ids)
        files.update(extra_files or {})
        write_crate(pkg, files, strum_features, no_default=no_default)
        ok, diags, stderr, exe = core.cargo_build(pkg, release=release)
        if ok:
            return exe.get(pkg), failed
        bad = failing_defs(diags)
        if -1 in bad and len(bad) == 1:
            raise ToolError("crate %s does not build and the errors are not in a definition module:\n%s\n%s"
                            % (pkg, "\n".join(bad[-1])[:3000], stderr[-2000:]))
        bad.pop(-1, None)
        if not bad:
            raise ToolError("crate %s does not build:\n%s" % (pkg, stderr[-3000:]))
        for i, msgs in bad.items():
            failed[i] = msgs
        ids = [i for i in ids if i not in failed]
        log("[%s] %d definition(s) do not compile; rebuilding without them" % (pkg, len(bad)))
    raise ToolError("crate %s still does not build after %d rounds" % (pkg, max_rounds))


def run_driver(exe, tag, inputs=None, seed=1, timeout=3600, env=None):
    """inputs: {def id: [str]} -> file; returns list of parsed events"""
    wd = core.workdir("run_" + tag)
    tr = os.path.join(wd, "events.ndjson")
    args = [tr]
    ip = os.path.join(wd, "inputs.txt")
    with open(ip, "w") as f:
        for did, ss in (inputs or {}).items():
            for s in ss:
                f.write("%d\t%s\n" % (did, ",".join(str(ord(c)) for c in s)))
    args += [ip, str(seed)]
    # a process that dies inside one definition's driver (stack overflow, abort: nothing a catch can turn into a panic event) is
    # data about THAT definition: it is recorded as a panic event, and the drivers are run again without it
    crashed = []
    for attempt in range(9):
        rc, out, err = core.run_bin(exe, args + [",".join(str(d) for d in crashed)], timeout=timeout, env=env)
        evs = []
        for l in open(tr):
            try:
                evs.append(json.loads(l))
            except ValueError:
                pass                      # a line cut off by the crash
        if rc == 0:
            break
        begun = [e["def"] for e in evs if e.get("op") == "begin"]
        if not begun or attempt == 8:
            raise ToolError("driver %s exited with %d:\n%s" % (exe, rc, err[-3000:]))
        crashed.append(begun[-1])
        core.log("[%s] the driver process died (exit %d) inside definition %d: %s" % (tag, rc, begun[-1], err.strip().splitlines()[-1][:200] if err.strip() else ""))
    evs = [e for e in evs if e.get("op") != "begin"]
    for d in crashed:
        evs.append({"op": "panic", "def": d, "i": 0, "msg": [ord(c) for c in "the process died inside this definition's driver (stack overflow or abort)"]})
    return evs


def group_by_def(defs_by_id, events):
    """-> list of [def event, events about it...] in definition order"""
    per = {}
    for e in events:
        per.setdefault(e["def"], []).append(e)
    groups = []
    for did in sorted(per):
        if did not in defs_by_id:
            continue
        groups.append([dict(op="def", d=defs_by_id[did])] + per[did])
    return groups


def validate_groups(module, groups, tag, rep, par=6, shard_bytes=8_000_000, env=None, canary=None):
    """Write shards, run TLC trace validation, map mismatches back to events.
    Returns list of (event, def record, mismatch text)."""
    wd = core.workdir("val_" + tag)
    paths = core.write_shards(groups, wd, "trace", max_bytes=shard_bytes)
    cfg = os.path.join(core.SPEC, module + ".cfg")
    # binding self-check: one recorded field is corrupted in a copy of one group; the trace specification must
    # reject it, otherwise the validation is vacuous and nothing it says is reported
    cpath = None
    if canary is not None:
        import copy
        for grp in groups:
            g2 = copy.deepcopy(grp)
            if canary(g2):
                cpath = os.path.join(wd, "canary.ndjson")
                with open(cpath, "w") as f:
                    for e in g2:
                        f.write(json.dumps(e, separators=(",", ":")) + "\n")
                break
        if cpath is None:
            raise ToolError("binding self-check: no event to corrupt in the trace of " + tag)
    results = core.tlc_trace(module + ".tla", cfg, paths + ([cpath] if cpath else []), tag, par=par, env=env)
    if cpath:
        cres = results.pop()
        if not cres["mismatches"]:
            raise ToolError("binding self-check failed: a corrupted trace was accepted by %s" % module)
        rep.cov["binding_selfcheck"] = "corrupted copy of one recorded group rejected by %s" % module
    out = []
    for p, r in zip(paths, results):
        lines = None
        rep.cov["traces_validated_against_impl"] += 1
        for (ln, text) in r.get("notes", []):
            # behaviour described by the specification but demanded by no listed property: reported, never a violation
            obs = rep.cov.setdefault("observations_outside_the_properties", [])
            if len(obs) < 20:
                obs.append(text[:400])
            core.log("note (outside the listed properties): " + text[:300])
        # (a change that makes EVERY event wrong yields tens of thousands of mismatches: the definition of each line is looked up in
        # one pass, and the first 400 mismatches of a shard are enough to report)
        for (ln, text) in r["mismatches"][:400]:
            if lines is None:
                lines = open(p).read().splitlines()
                def_at, cur = [], None
                for l in lines:
                    if l.startswith('{"op":"def"'):
                        cur = json.loads(l)["d"]
                    def_at.append(cur)
            ev = json.loads(lines[ln - 1])
            out.append((ev, def_at[ln - 1], text))
    return out
