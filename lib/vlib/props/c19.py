"""C19 - generated code depends only on ::core and on the configured strum path."""
import os, random, re, copy, json
from concurrent.futures import ThreadPoolExecutor
from .. import core, pipe, defs as D, strcorpus as SC, itergen as IG, reprgen as RG, metagen as MG
from ..defs import variant, enum, field
from ..core import uncp
from . import c17

PROP = "C19"
SIZES = dict(quick=dict(per=14), thorough=dict(per=120))

# things generated enums refer to, written so that they exist in a #![no_std] crate without alloc
PRELUDE = r'''
#[derive(Clone, Copy, PartialEq, Eq, Debug)]
pub struct Buf { len: usize, bytes: [u8; 32] }
impl Default for Buf { fn default() -> Self { Buf { len: 0, bytes: [0; 32] } } }
impl<'x> From<&'x str> for Buf { fn from(s: &'x str) -> Buf { let mut b = Buf::default(); let n = if s.len() < 32 { s.len() } else { 32 }; b.bytes[..n].copy_from_slice(&s.as_bytes()[..n]); b.len = n; b } }
impl AsRef<str> for Buf { fn as_ref(&self) -> &str { match ::core::str::from_utf8(&self.bytes[..self.len]) { Ok(s) => s, Err(_) => "" } } }
impl ::core::fmt::Display for Buf { fn fmt(&self, f: &mut ::core::fmt::Formatter) -> ::core::fmt::Result { ::core::fmt::Display::fmt(AsRef::<str>::as_ref(self), f) } }
pub type String = Buf;
#[derive(Debug, Clone, PartialEq)]
pub struct Arr<const N: usize>(pub [u8; N]);
impl<const N: usize> Default for Arr<N> { fn default() -> Self { Arr([0; N]) } }
pub fn dw_u8() -> u8 { 7 }
pub fn dw_i32() -> i32 { -3 }
pub fn dw_bool() -> bool { true }
pub fn dw_string() -> Buf { Buf::from("dw") }
pub fn dw_opt() -> Option<u8> { Some(9) }
#[derive(Debug, Clone, PartialEq, Eq, Hash, PartialOrd, Ord)]
pub struct Tricky(pub u8);
impl Tricky { pub const fn default() -> Self { Tricky(9) } }
impl Default for Tricky { fn default() -> Self { Tricky(0) } }
pub fn dw_tricky() -> Tricky { Tricky(5) }
#[derive(Debug, Clone, PartialEq)]
pub struct PanicDefault(pub u8);
impl Default for PanicDefault { fn default() -> Self { panic!() } }
#[derive(Debug, Clone, PartialEq)]
pub struct UserErr(pub Buf);
pub fn user_err(s: &str) -> UserErr { UserErr(Buf::from(s)) }
'''

CONFIGS = {
    "no_std": dict(head="#![no_std]\n#![allow(warnings)]\n", strum="strum", crate="none", nodefault=True, extern="strum", wrap=None),
    "renamed": dict(head="#![allow(warnings)]\n", strum="strum_renamed", crate="strum_renamed", nodefault=False, extern="strum_renamed", wrap=None),
    "nested": dict(head="#![allow(warnings)]\npub mod nested { pub mod inner { pub use strum_renamed as s; } }\n", strum="crate::nested::inner::s",
                   crate="crate::nested::inner::s", nodefault=False, extern="strum_renamed", wrap=None),
    "alias": dict(head="#![allow(warnings)]\nuse strum_renamed as st;\n", strum="st", crate="st", nodefault=False, extern="strum_renamed", wrap=None),
    "facade": dict(head="#![allow(warnings)]\npub mod facade { pub use strum_renamed::*; }\n", strum="facade", crate="facade", nodefault=False,
                   extern="strum_renamed", wrap=None),
    "shadow": dict(head="#![allow(warnings)]\n", strum="strum", crate="none", nodefault=False, extern="strum", wrap="shadow"),
}


def corpus(rng, per):
    """(definition, derives) pairs: the corpora of the other properties, non-deprecated derives only"""
    out, did = [], 1

    def add(E, derives, std=("Debug", "Clone", "PartialEq")):
        nonlocal did
        E = copy.deepcopy(E)
        E["id"], E["name"] = did, E.get("keep_name") or ("E%d" % did)
        out.append((E, list(derives), std))
        did += 1
    for k in range(per):
        E = SC.sample_def(rng, 0, nmax=5)
        for v in E["variants"]:
            for f in v["fields"]:
                if f["ty"] == "boxstr":
                    f["ty"] = "String"
        add(E, ["EnumString"])
    # the phf-backed parser (strum's optional `phf` feature): its support code must be reachable through the configured path too
    for k in range(per):
        add(SC.sample_def(rng, 0, nmax=5, phf=True, fieldless=True, perr=False), ["EnumString"])
    cands = [SC.names_def(rng, 100000 + k) for k in range(per * 3)]
    for E in cands:
        for v in E["variants"]:
            for f in v["fields"]:
                if f["ty"] == "boxstr":
                    f["ty"] = "String"
        has_tr = any(v["transp"] for v in E["variants"])
        add(E, ["Display", "AsRefStr", "VariantNames", "EnumMessage"] + ([] if (has_tr and E["cis"]) else ["IntoStaticStr"]))
    # interpolating Display literals (tuple and named)
    for k in range(per):
        vs = [c17.interp_variant(rng, ["Red", "Green", "Blue"][j], ["tuple", "named", rng.choice(["tuple", "named"])][j]) for j in range(3)]
        add(enum(0, vs + [variant("Plain")]), ["Display"])
    for k in range(per):
        n = rng.randint(0, 6)
        add(IG.shape(rng, 0, n, [1 if rng.random() < 0.3 else 0 for _ in range(n)], generics=rng.choice(["none", "ty", "const", "tywhere"]) if n else "none"),
            ["EnumIter", "EnumCount"])
    for k in range(per):
        add(RG.repr_def(rng, 0, generics=rng.choice(["none", "ty"]), kinds=rng.choice(["unit", "mixed"]), anchored=False), ["FromRepr"])
    for k in range(per):
        add(MG.isas_def(rng, 0), ["EnumIs", "EnumTryAs"])
    for k in range(per):
        add(MG.msg_def(rng, 0), ["EnumMessage"])
        add(MG.prop_def(rng, 0), ["EnumProperty"])
    for k in range(per):
        n = rng.randint(1, 5)
        mask = [1 if rng.random() < 0.3 else 0 for _ in range(n)]
        if all(mask):
            mask[0] = 0
        add(IG.table_def(0, mask), ["EnumTable"], ("Debug", "Clone", "Copy", "PartialEq"))
        add(enum(0, [variant(IG.IDS[i]) for i in range(n)]), ["VariantArray", "VariantNames", "EnumCount", "EnumIter"])
    # enums NAMED like items the generated code mentions through the configured path
    add(dict(enum(0, [variant("Eof"), variant("Bad", ser=["bad"])]), keep_name="ParseError"), ["EnumString"])
    add(dict(enum(0, [variant("Eof"), variant("Bad", ser=["bad"])]), keep_name="EnumCount"), ["EnumCount", "EnumIter"])
    add(dict(enum(0, [variant("Eof"), variant("Bad", "tuple", [field("u8")])]), keep_name="IntoDiscriminant", dgen="none", dname="", dvis="", reprs=[]), ["EnumDiscriminants"])
    # every derive ALONE on an enum (nothing else registers the `strum` helper attribute or brings a trait into scope for it)
    for dv in ("VariantArray", "VariantNames", "EnumCount", "EnumIter", "AsRefStr", "IntoStaticStr", "Display", "EnumString", "EnumIs", "EnumTryAs",
               "EnumMessage", "EnumProperty", "FromRepr"):
        add(enum(0, [variant("Red"), variant("DarkBlue", ser=["db"]), variant("Off", dis=(dv != "VariantArray"))], style="snake_case"), [dv])
    add(enum(0, [variant("Red"), variant("DarkBlue")]), ["EnumTable"], ("Debug", "Clone", "Copy", "PartialEq"))
    for k in range(per):
        E = RG.disc_def(rng, 0)
        E["dder"] = False
        if E["dvis"] == "pub(super)":
            E["dvis"] = "pub(crate)"       # the programs of this check put the enum at the crate root
        add(E, ["EnumDiscriminants"])
    return out


def keep_in_domain(pairs):
    """drop candidates the specification places outside the domains (overlap, ties, braces, duplicate discriminants, ...)"""
    facts = pipe.domain_pass([p[0] for p in pairs], PROP)
    rfacts = pipe.domain_pass([p[0] for p in pairs], PROP + "r", module="DomainRepr")
    keep = []
    for E, derives, std in pairs:
        f = facts[E["id"]]
        ok = rfacts[E["id"]]["distinct"]
        if "EnumString" in derives:
            ok = ok and f["wf"] and f["no"]
        if set(derives) & {"Display", "AsRefStr", "IntoStaticStr", "VariantNames"}:
            ok = ok and f["wfn"] and f["dwf"] and f["iswf"]
        if set(derives) & {"EnumIs", "EnumTryAs"}:
            ok = ok and f["iswfn"]
        if ok:
            keep.append((E, derives, std))
    return keep


def source(E, derives, std, cfg):
    c = CONFIGS[cfg]
    E = copy.deepcopy(E)
    if c["crate"] != "none":
        E["crate"] = c["crate"]
    if "EnumDiscriminants" in derives and E.get("dgen"):
        body = disc_enum(E, c["strum"])
    else:
        body = D.print_enum(E, derives, std_derives=std, strum_path=c["strum"])
    body = "pub const BASE: %s = 5;\n" % RG.rtype(E) + body
    if cfg == "no_std" and E["id"] % 2 == 0 and not E.get("phf"):
        # a free-standing artefact brings its own panic handler: nothing in its dependency graph may link std
        # (not with strum's `phf` feature: the phf crate is pulled in with its own default features, which include std - observation O7)
        body += "\n#[panic_handler]\nfn on_panic(_info: &::core::panic::PanicInfo) -> ! { loop {} }\n"
    if c["wrap"] == "shadow":
        # local modules named core / std in the caller's scope must not change what generated code resolves to
        return c["head"] + "pub mod scope {\n    pub mod core {}\n    pub mod std {}\n    pub mod alloc {}\n    pub mod strum_private {}\n" + \
            "\n".join("    " + l for l in (PRELUDE + body).splitlines()) + "\n}\n"
    return c["head"] + PRELUDE + body + "\n"


def disc_enum(E, strum_path):
    decl, inst, where = RG.DGEN[E["dgen"]]
    lines = (["use %s::{EnumCount, FromRepr};" % strum_path] if E["id"] % 4 == 0 else []) + \
            ["#[derive(Debug, Clone, PartialEq, %s::EnumDiscriminants)]" % strum_path] + ["#[repr(%s)]" % r for r in E["reprs"]]
    items = []
    if E["dname"]:
        items.append("name(%s)" % E["dname"])
    if E["dvis"]:
        items.append("vis(%s)" % E["dvis"])
    if E["id"] % 2:
        items.append("derive(Hash, PartialOrd)")          # only non-strum derives on the generated enum
    elif E["id"] % 4 == 0:
        items.append("derive(EnumCount, FromRepr)")        # strum's own derives by bare name, imported below from the configured path
        if E.get("crate", "none") != "none":
            items.append('strum(crate = "%s")' % E["crate"])   # the generated enum is a derive input of its own: it needs the path too
    if items:
        lines.append("#[strum_discriminants(%s)]" % ", ".join(items))
    if E.get("crate", "none") != "none":
        lines.append('#[strum(crate = "%s")]' % E["crate"])
    lines.append("pub enum %s%s%s {" % (E["name"], decl, where))
    for v in E["variants"]:
        lines += D.print_variant(v, 0, with_strum=False, indent="    ")
    lines.append("}")
    return "\n".join(lines).replace(": u8 = ", ": u8 = ")


_TOK = re.compile(r'"(?:[^"\\]|\\.)*"' r"|'(?:[^'\\]|\\.)'" r"|[A-Za-z_][A-Za-z0-9_]*|::|=>|->|[0-9][A-Za-z0-9_.]*|\S")


def roots_and_macros(dump):
    """reduce a STRUM_DEBUG token dump to the roots of its paths and the macros it invokes"""
    toks = _TOK.findall(dump)
    ident = re.compile(r"^[A-Za-z_][A-Za-z0-9_]*$")
    roots, macros = set(), set()
    for i, t in enumerate(toks):
        prev = toks[i - 1] if i else ""
        nxt = toks[i + 1] if i + 1 < len(toks) else ""
        if t == "::" and ident.match(nxt) and not ident.match(prev) and prev != ">":
            roots.add("::" + nxt)                       # a path with a leading `::`
        if t in ("core", "std", "alloc") and nxt == "::" and prev != "::":
            roots.add(t)                                # a relative path starting at core / std / alloc
        if t == "!" and ident.match(prev) and nxt in ("(", "[", "{"):
            macros.add(prev)
    return sorted(roots), sorted(macros)


def canary(grp):
    for e in grp:
        if e.get("op") == "build":
            e["ok"] = False
            return True
    return False


def run(tier, seed, rep):
    sz = SIZES[tier]
    rng = random.Random(seed * 817504243 + 67)
    pairs = keep_in_domain(corpus(rng, sz["per"]))
    core.log("[C19] %d (definition, derives) pairs in the documented domains" % len(pairs))
    try:
        libs = {"nd": core.strum_rlibs(("derive",), no_default=True), "std": core.strum_rlibs(("derive",)),
                "nd_phf": core.strum_rlibs(("derive", "phf"), no_default=True), "std_phf": core.strum_rlibs(("derive", "phf"))}
    except core.BuildFailed as e:
        # strum itself does not build in one of the configurations (e.g. default-features = false): no derive is usable there
        rep.violation(dict(kind="build", config="strum_itself"), "the strum crate itself does not build (default-features = false or derive): "
                      + e.stderr[-400:], dict(definition=dict(id=0), stderr=e.stderr[-3000:]))
        rep.cov.update(programs=1, evaluations=1, distinct_nontrivial=2, rule="strum itself failed to build", samples=["strum build"])
        return rep
    wd = core.workdir("progs_" + PROP)
    jobs = []
    for E, derives, std in pairs:
        if core.only_defs() is not None and E["id"] not in core.only_defs():
            continue
        for cfg in CONFIGS:
            jobs.append((E, derives, std, cfg))

    def compile_one(job):
        E, derives, std, cfg = job
        c = CONFIGS[cfg]
        src = source(E, derives, std, cfg)
        p = os.path.join(wd, "d%d_%s.rs" % (E["id"], cfg))
        open(p, "w").write(src)
        rlib, deps = libs[("nd" if c["nodefault"] else "std") + ("_phf" if E.get("phf") else "")]
        debug = cfg in ("no_std", "renamed")
        ok, diags, out = core.rustc_check(p, rlib, deps, extern_name=c["extern"], env=dict(STRUM_DEBUG="1") if debug else None)
        msgs = [d.get("message", "")[:140] for d in diags if d.get("level") == "error"]
        evs = [dict(op="build", config=cfg, **{"def": E["id"]}, derives=derives, ok=ok, msgs=msgs)]
        if debug and ok:
            roots, macros = roots_and_macros(out)
            evs.append(dict(op="refs", config=cfg, **{"def": E["id"]}, derive="+".join(derives), crate_path="" if c["crate"] == "none" else c["crate"],
                            roots=roots, macros=macros))
        return evs, src, E
    res = core.pmap(compile_one, jobs)
    evs, srcs = [], {}
    for e3, src, E in res:
        for e in e3:
            evs.append(e)
            srcs[(e["def"], e["config"])] = (src, E)
    with ThreadPoolExecutor(max_workers=1) as ex:
        mc = ex.submit(model, tier)
        mism = pipe.validate_groups("Trace_Build", [[e] for e in evs], PROP, rep, shard_bytes=600_000, canary=canary)
        for ev, d, text in mism:
            src, E = srcs[(ev["def"], ev["config"])]
            key = dict(kind=ev["op"], config=ev["config"], msg=(ev.get("msgs") or [""])[0][:40] if ev["op"] == "build" else "refs")
            rep.violation(key, "generated code does not compile / refers to something outside ::core and the strum path under configuration %s: %s"
                          % (ev["config"], text[:300]), dict(definition=E, derives=ev.get("derives"), tlc=text, files={"program.rs": src}))
        name, r, consts = mc.result()
        rep.add_model(name, r, consts)
    builds = [e for e in evs if e["op"] == "build"]
    rep.cov["programs"] = len(builds)
    rep.cov["evaluations"] = len(evs)
    rep.cov["distinct_nontrivial"] = len({(e["def"], e["config"]) for e in builds})
    rep.cov["rule"] = ("the corpora of the other properties (EnumString, Display incl. interpolation, AsRefStr, IntoStaticStr, VariantNames, EnumMessage, "
                       "EnumProperty, EnumIter, EnumCount, FromRepr, EnumIs, EnumTryAs, EnumTable, VariantArray, EnumDiscriminants; all kinds, "
                       "attributes, generics), filtered by the specification's domain predicates, each compiled on its own under four "
                       "configurations (definitions with use_phf against strum built with the phf feature, with and without default features): #![no_std] without alloc against strum built with default-features = false; strum reachable only as the "
                       "renamed dependency strum_renamed; only through the nested re-export crate::nested::inner::s; inside a scope with local "
                       "modules core, std, alloc; plus STRUM_DEBUG token dumps reduced to path roots / macro names and validated against Paths.tla")
    rep.cov["samples"] = [dict(def_=e["def"], config=e["config"], derives=e["derives"], ok=e["ok"]) for e in builds[::97]][:6] + \
                         [dict(config=e["config"], roots=e["roots"], macros=e["macros"]) for e in evs if e["op"] == "refs"][:2]
    rep.assumptions += ["rustc decides whether a program compiles; the specification supplies the configurations, the expected outcome and the reference rules",
                        "owned payloads in the no_std configuration use a fixed-buffer type implementing From<&str>"]
    return rep


def model(tier):
    """(A) for C19 is small: the outcome table and reference rules are total over the configurations"""
    cfg = core.workdir("mc_" + PROP) + "/MC_Paths.cfg"
    core.write_cfg(cfg, invariants=["OutcomeTableTotal", "StdNeverAllowed", "ConfiguredPathRespected", "StdMacrosRejected"])
    res = core.tlc_mc("MC_Paths.tla", cfg, "mc_" + PROP, workers=2, timeout=600, xmx="2g")
    return ("MC_Paths", res, {})
