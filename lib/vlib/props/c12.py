"""C12 - ascii_case_insensitive folds ASCII letters only, only for the variants it covers."""
import random
from .. import core, parsecheck as PC, strcorpus as SC
from ..defs import variant, enum, field

PROP = "C12"
SIZES = dict(quick=dict(sample=120, cap=700, flips=9), thorough=dict(sample=2500, cap=6000, flips=12))
SPELL = ["k", "Kelvin", "ks", "SS", "straße", "été", "ÉTÉ", "i", "Istanbul", "fi", "ab1CD", "x-y_z", "kK", "ſtop", "mask", "K9",
         "aBcDeFgHiJkL", "İ", "σς", "{id}", "[x]", "a@b`c", "x^~|\\_1"]


def model(tier):
    cfg = core.workdir("mc_" + PROP) + "/MC_FromStr.cfg"
    consts = dict(Size=1 if tier == "quick" else 2, Dedup=True, Overlap=True)
    core.write_cfg(cfg, constants=consts, invariants=["AsciiOnly", "FlagTable", "ExpansionIsSpec"])
    res = core.tlc_mc("MC_FromStr.tla", cfg, "mc_" + PROP, workers=6, timeout=7200, xmx="12g")
    if res["coverage"].get("PushArms", 0) == 0:
        raise core.ToolError("vacuity: PushArms never taken")
    return ("MC_FromStr", res, consts)


def candidates(rng, n):
    cands, did = [], 1
    # all 6 flag combinations on the same spellings, next to case-sensitive variants of the same enum
    for eaci in (False, True):
        for vaci in (2, 1, 0):
            for sp in SPELL:
                vs = [variant("Target", ser=[sp], aci=vaci, acif=did % 2),
                      variant("Plain"), variant("Sensitive", ser=["Zz" + sp], aci=0), variant("Folded", ser=["qq" + sp], aci=1)]
                cands.append(enum(did, vs, aci=eaci, split=did % 2))
                did += 1
    # identifier-derived spellings under a style
    for eaci in (False, True):
        for st in ("none", "snake_case", "SCREAMING-KEBAB-CASE", "camelCase"):
            vs = [variant("HTTPServer", aci=2), variant("Kelvin", aci=1), variant("Ks", aci=0), variant("Mask", "tuple", [field("u8")], aci=2)]
            cands.append(enum(did, vs, aci=eaci, style=st))
            did += 1
    # spellings equal up to case on a case-sensitive and a case-insensitive variant, in both declaration orders that keep
    # first-match-wins well defined for the plain and the phf-backed parser (PhfConsistent)
    cands.append(enum(did, [variant("Lower", ser=["mb"]), variant("Upper", ser=["MB"], aci=1), variant("Other")])); did += 1
    cands.append(enum(did, [variant("Exact", ser=["kb"], aci=0), variant("Any", ser=["Kb"]), variant("Tail", ser=["t"])], aci=True)); did += 1
    cands.append(enum(did, [variant("A", ser=["ab", "Ab"]), variant("B", ser=["AB"], aci=1), variant("C", ser=["aB"], aci=1)])); did += 1
    for eaci in (False, True):
        for vaci in (2, 1, 0):
            cands.append(enum(did, [variant("Only", ser=["Start"], aci=vaci)], aci=eaci)); did += 1
            cands.append(enum(did, [variant("Off", dis=True), variant("Only", aci=vaci), variant("Rest", "tuple", [field("String")], default=True)], aci=eaci)); did += 1
    # a case-insensitive variant declared BEFORE a case-sensitive one that spells one of its case flips: the earlier arm wins
    cands.append(enum(did, [variant("Megabit", ser=["mb"], aci=1), variant("Megabyte", ser=["MB"]), variant("Other")])); did += 1
    cands.append(enum(did, [variant("Other"), variant("Kilo", ser=["Kb"], aci=2), variant("Exact", ser=["KB"], aci=0), variant("Tail", ser=["kb"], aci=0)], aci=True)); did += 1
    towns = ["\u00d6stringen", "\u0141\u00f3d\u017a", "\u00dcrzig", "Aachen", "Bonn", "Celle", "Dachau", "Essen", "Fulda", "Gera", "Halle", "Ilmenau",
             "Jena", "Kassel", "Leer", "Mainz", "Neuss", "Olpe", "\u00c5lesund", "\u00e9vry"]
    cands.append(enum(did, [variant("T%d" % k, ser=[s]) for k, s in enumerate(towns)], aci=True)); did += 1
    cands.append(enum(did, [variant("T%d" % k, ser=[s], aci=(0 if k == 4 else 2)) for k, s in enumerate(towns)], aci=True)); did += 1
    for st in ("lowercase", "UPPERCASE", "snake_case", "none"):
        for eaci in (False, True):
            cands.append(enum(did, [variant("\u00c5ngstr\u00f6m", aci=2), variant("Cr\u00e8me", aci=1), variant("\u00c9clair", aci=0), variant("Plain")],
                              style=st, aci=eaci))
            did += 1
    for k in range(n):
        E = SC.sample_def(rng, did, nmax=5, phf=None, fieldless=(k % 3 == 0))
        cands.append(E)
        did += 1
    return cands


def run(tier, seed, rep):
    sz = SIZES[tier]
    rng = random.Random(seed * 49979687 + 11)
    r = PC.run_parse_check(PROP, "c12", rep, candidates(rng, sz["sample"]), rng, seed, sz["cap"], sz["flips"],
                           lambda: model(tier), what="case-insensitive matching differs from the ASCII-only rule",
                           in_domain=lambda f: f["wf"] and (f["no"] or f["pc"]), features=("derive", "phf"))
    rep.cov["rule"] = ("definitions = 6 flag combinations (enum flag x variant flag absent/true/false) x %d spellings with ASCII and "
                       "non-ASCII letters, each next to case-sensitive variants, + styled identifiers + seeded samples; inputs = ALL "
                       "2^k case flips for k <= %d letters (sampled above), every Unicode look-alike substitution (KELVIN SIGN, LONG S, "
                       "dotless/dotted i, sharp s, ligatures), full Unicode upper/lower/casefold of each spelling, one-edit neighbours; "
                       "distinct = (definition, input)" % (len(SPELL), sz["flips"]))
    rep.assumptions += ["rustc/cargo and the 1:1 definition printer are trusted"]
    return rep
