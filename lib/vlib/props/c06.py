"""C06 - from_repr(d) is Some(V) iff d is the discriminant rustc gives enabled variant V."""
import random
from concurrent.futures import ThreadPoolExecutor
from .. import core, pipe, reprgen as RG
from .c03 import report_compile_failures

from ..core import COMMON_DIMENSIONS
PROP = "C06"
SIZES = dict(quick=dict(sample=260, mcV=4), thorough=dict(sample=4000, mcV=5))


def canary(grp):
    for e in grp:
        if e.get("op") == "probes" and e["probes"]:
            e["probes"][0][2] = e["probes"][0][2] + 1
            return True
    return False


def model(tier):
    cfg = core.workdir("mc_" + PROP) + "/MC_FromRepr.cfg"
    consts = dict(MaxV=SIZES[tier]["mcV"], DefineAll=True)
    core.write_cfg(cfg, constants=consts, invariants=["ExpansionIsSpec", "RoundTrip", "NeverDisabled"])
    res = core.tlc_mc("MC_FromRepr.tla", cfg, "mc_" + PROP, workers=6, timeout=7200, xmx="10g")
    for a in ("DefineConstOnly", "DefineConstAndArm", "Finish"):
        if res["coverage"].get(a, 0) == 0:
            raise core.ToolError("vacuity: action %s never taken" % a)
    return ("MC_FromRepr", res, consts)


def shape_key(E):
    """classifier for known findings: is there a disabled variant followed by an implicitly numbered variant?"""
    seen_dis = False
    drift = False
    for v in E["variants"]:
        if v["dis"]:
            seen_dis = True
        elif seen_dis and not v["disc"]:
            drift = True
        if v["disc"]:
            seen_dis = False if not v["dis"] else seen_dis
    return dict(disabled_before_implicit=drift, repr_mode=E.get("repr_mode", "plain"))


def handwritten(did):
    """expression-valued discriminants whose top-level operator binds looser than `+`, each followed by an implicit
    variant; explicit discriminants on disabled variants that restart the numbering"""
    from ..defs import variant, enum, field
    out = []

    def mk(repr_, items, kinds=None):
        vs = []
        for k, (name, val, expr, dis) in enumerate(items):
            v = variant(name, dis=dis)
            if kinds and kinds[k]:
                v["kind"], v["fields"], v["nf"] = "tuple", [field("u8")], 1
            if expr is not None:
                v["disc"], v["discx"] = [val], expr
            vs.append(v)
        E = enum(did + len(out), vs, repr_=repr_)
        E["anchor_rs"], E["absvals"], E["repr_mode"] = "0", [], "plain"
        # discriminants that name BASE: every second such definition is declared inside the function that uses it
        if any("BASE" in (v.get("discx") or "") for v in vs) and len(out) % 2 == 0:
            E["in_fn"] = True
        out.append(E)
    mk("u8", [("In", 7, "BASE | 2", False), ("Next", 0, None, False), ("Twice", 10, "BASE * 2", False), ("Off", 0, None, True), ("Last", 0, None, False)])
    mk("u8", [("A", 16, "1 << 4", False), ("B", 0, None, False), ("C", 7, "BASE | 2", False), ("D", 0, None, False),
              ("E", 12, "0x0F & 0x3C", False), ("F", 0, None, False), ("G", 5, "6 ^ 3", False), ("H", 0, None, False)])
    mk("i32", [("A", -500, "-(2 + 3) * 100", False), ("B", 0, None, False), ("C", 1024, "1 << 10", False), ("D", 0, None, False),
               ("E", 64, "256 >> 2", False), ("F", 0, None, False)], kinds=[0, 1, 0, 1, 0, 0])
    mk("u8", [("LowNibble", 15, "!0 >> 4", False), ("Next", 0, None, False), ("Third", 85, "!0 / 3", False), ("After", 0, None, False)])
    mk("u16", [("Half", 32767, "!0 >> 1", False), ("More", 0, None, False), ("Small", 5, "!0 % 10", False)])
    mk("i8", [("A", -3, "-3", False), ("B", 0, None, False), ("Hole", 40, "40", True), ("C", 0, None, False), ("D", 0, None, False)])
    mk("u16", [("Hole0", 9, "9", True), ("A", 0, None, False), ("Hole1", 300, "0x12C", True), ("Hole2", 0, None, True), ("B", 0, None, False)])
    for rp in ("none", "u8"):
        vs = [variant("Unit"), variant("Opt", "tuple", [field("optT")]), variant("Named", "named", [field("phT", "p"), field("u8", "n")]),
              variant("Off", "tuple", [field("optT")], dis=True)]
        E = enum(did + len(out), vs, repr_=rp, generics="tynd")
        E["anchor_rs"], E["absvals"], E["repr_mode"] = "0", [], "plain"
        out.append(E)
    # attributes that belong to EnumString (a catch-all `default`, `default_with` on a variant and on a field) mean nothing to from_repr:
    # payloads are Default::default(), values without a variant give None
    for rp in ("u8", "none", "i16"):
        vs = [variant("Known"), variant("Retry", "tuple", [field("u8")], dwith="dw_u8"), variant("Other", "tuple", [field("String")], default=True),
              variant("Cfg", "named", [field("i32", "n", dw="dw_i32"), field("bool", "b")]), variant("Gone", "tuple", [field("u8")], dis=True, dwith="dw_u8"),
              variant("Last")]
        E = enum(did + len(out), vs, repr_=rp)
        E["anchor_rs"], E["absvals"], E["repr_mode"] = "0", [], "plain"
        out.append(E)
    # an ENABLED variant whose payload has a Default that panics: nothing may build it unless its own discriminant is asked for (which the
    # driver never does for this one)
    for rp in ("u32", "i64"):
        vs = [variant("A", disc=1), variant("Heavy", "tuple", [field("panicdef")], disc=77), variant("B"), variant("Off", dis=True), variant("C", "named", [field("u8", "n")], disc=200)]
        E = enum(did + len(out), vs, repr_=rp)
        E["anchor_rs"], E["absvals"], E["repr_mode"], E["skip_probe"] = "0", [], "plain", [1]
        out.append(E)
    # a full byte: 256 variants on repr(u8), every value taken (some disabled); more variants than a byte on repr(u16)
    mk("u8", [("V%d" % k, 0, None, k % 37 == 5) for k in range(256)])
    mk("u16", [("W%d" % k, 0, None, k % 41 == 7) for k in range(300)])
    # discriminants at the limits of the repr type
    mk("u8", [("Lo", 0, "0", False), ("Mid", 0, None, False), ("Hi", 255, "255", False)])
    mk("i8", [("Min", -128, "-128", False), ("Next", 0, None, False), ("Max", 127, "127", False), ("Zero", 0, "0", True)])
    # ... of the wide types: written relative to an anchor 40 away from the limit (the specification counts in offsets from it)
    def mk_anchored(repr_, top, items):
        vs = []
        for name, rel, dis in items:
            v = variant(name, dis=dis)
            if rel is not None:
                base = "%s::MAX - 40" % repr_ if top else "%s::MIN + 40" % repr_
                v["disc"], v["discx"] = [rel], "%s %s %d" % (base, "+" if rel >= 0 else "-", abs(rel))
            vs.append(v)
        E = enum(did + len(out), vs, repr_=repr_)
        E["anchor_rs"] = ("(%s::MAX as i128) - 40" if top else "(%s::MIN as i128) + 40") % repr_
        E["absvals"], E["repr_mode"] = [], "plain"
        out.append(E)
    mk_anchored("i64", True, [("Below", -10, False), ("Next", None, False), ("Top", 40, False)])
    mk_anchored("i64", False, [("Bottom", -40, False), ("Next", None, False), ("Off", None, True), ("After", None, False)])
    mk_anchored("u64", True, [("Near", 38, False), ("Almost", None, True), ("Top", None, False)])
    mk_anchored("isize", False, [("Bottom", -40, False), ("Next", None, False)])
    mk("u16", [("Top", 65535, "u16::MAX", False), ("Zero", 0, "0", False), ("One", 0, None, True), ("Two", 0, None, False)])
    # a signed byte used from -100 upwards: 200 variants, positions beyond 127
    mk("i8", [("S%d" % k, -100 if k == 0 else 0, "-100" if k == 0 else None, k % 53 == 9) for k in range(200)])
    return out


def run(tier, seed, rep):
    sz = SIZES[tier]
    rng = random.Random(seed * 179424673 + 41)
    with ThreadPoolExecutor(max_workers=1) as ex:
        mc = ex.submit(model, tier)
        defs, did = [], 1
        for r in RG.REPRS:                      # every repr, with and without data, generic
            for kinds, gen in (("unit", "none"), ("mixed", "none"), ("mixed", "ty")):
                defs.append(RG.repr_def(rng, did, repr_=r, kinds=kinds, generics=gen))
                did += 1
        for E in handwritten(did):
            defs.append(E)
            did += 1
        for k in range(sz["sample"]):
            defs.append(RG.repr_def(rng, did, generics=rng.choice(["none", "none", "ty", "const"]), kinds=rng.choice(["unit", "mixed"])))
            did += 1
        defs = RG.in_domain(defs, PROP)
        by_id = {E["id"]: E for E in defs}
        files = {E["id"]: RG.fromrepr_module(E) for E in defs}
        exe, failed = pipe.build_corpus("c06", files)
        for did_, msgs in failed.items():
            rep.violation(dict(kind="compile_error", msg=msgs[0][:40], repr_mode=by_id[did_].get("repr_mode", "plain")),
                          "in-domain FromRepr definition does not compile (the driver calls from_repr with the #[repr] integer type): " + msgs[0][:160],
                          dict(definition=by_id[did_], errors=msgs, files={"def.rs": files[did_]}))
        evs = pipe.run_driver(exe, PROP, {}, seed)
        groups = pipe.group_by_def(by_id, evs)
        mism = pipe.validate_groups("Trace_Repr", groups, PROP, rep, shard_bytes=1_500_000, canary=canary)
        for ev, d, text in mism:
            if "SPEC-ERROR" in text:
                raise core.ToolError("the specification's Discr disagrees with rustc: " + text[:600])
            key = dict(kind="from_repr_mismatch")
            key.update(shape_key(d) if d else {})
            rep.violation(key, "from_repr differs from the discriminant rule: " + text[:400],
                          dict(definition=d, event_op=ev["op"], tlc=text, files={"def.rs": files.get(d["id"], "") if d else ""}))
        name, res, consts = mc.result()
        rep.add_model(name, res, consts)
    evs = [e for e in evs if e.get("op") != "panic"]      # PANIC_FILTER: statistics only (panic events were judged by TLC above)
    sw = [e for e in evs if e["op"] == "sweep"]
    pr = [e for e in evs if e["op"] == "probes"]
    rep.cov["programs"] = len(defs) - len(failed)
    rep.cov["evaluations"] = sum(e["hi"] - e["lo"] + 1 for e in sw) + sum(len(e["probes"]) for e in pr)
    rep.cov["distinct_nontrivial"] = sum(len(e["hits"]) for e in sw) + sum(1 for e in pr for p in e["probes"] if p[2])
    rep.cov["swept_exhaustively"] = len(sw)
    rep.cov["rule"] = ("definitions x repr in {none,u8..isize} x explicit (negative, gapped, descending, expression-valued: hex, 1 << k, BASE + k, "
                       "-(k), typed literals) and implicit discriminants x every placement of disabled variants x kinds x generics; 8/16-bit "
                       "reprs are swept over EVERY d, wider ones probed at every discriminant +-1, 0, MIN, MAX, anchor +-32 and random values; "
                       "`v as R` / the tag read through a pointer validates the specification's Discr against rustc; distinct_nontrivial = "
                       "number of Some(..) results observed")
    rep.cov["rule"] += ' + macro-assembled discriminants (top level and nested in parentheses); 256 variants on repr(u8), 300 on repr(u16), 200 on repr(i8) from -100'
    rep.cov["rule"] += COMMON_DIMENSIONS
    rep.cov["samples"] = [dict(def_=e["def"], ty=e["ty"], hits=e["hits"][:6]) for e in sw[:3]]
    rep.assumptions += ["discriminants near a type's MIN/MAX are logged relative to an anchor: Discr and FromReprSpec are translation invariant",
                        "probe values farther than 2^30 from the anchor are logged by class (big); all declared discriminants are within 2^30 of it"]
    return rep
