"""C01 - EnumString returns variant V iff the input is one of V's declared spellings."""
import random
from concurrent.futures import ThreadPoolExecutor
from .. import core, pipe, strcorpus as SC, strgen as SG, defs as D
from ..core import uncp

PROP = "C01"
SIZES = dict(quick=dict(exh=250, sample=450, cap=110, flips=5, mc_size=1, shard=1_500_000),
             thorough=dict(exh=2500, sample=6000, cap=900, flips=10, mc_size=2, shard=6_000_000))


def shape_key(E, what):
    return dict(kind=what)


def candidates(rng, sz, start=1):
    cands = SC.dictionary(start)
    assert len(cands) < 400
    nxt = start + 400          # the ids of the enumerated and sampled definitions do not depend on how long the dictionary has grown
    ex = SC.exhaustive_small(nxt, rng, sz["exh"])
    cands += ex
    nxt += len(ex)
    for k in range(sz["sample"]):
        cands.append(SC.sample_def(rng, nxt + k, phf=None, fieldless=(k % 4 == 0)))
    return cands


def canary(grp):
    """corrupt one recorded parse result (variant index) in a group; True if something was changed"""
    for e in grp:
        if e.get("op") == "parse" and e["res"]:
            e["res"][0]["i"] += 1
            return True
    return False


def model(rep, sz):
    cfg = core.workdir("mc_" + PROP, clean=True) + "/MC_FromStr.cfg"
    consts = dict(Size=sz["mc_size"], Dedup=True, Overlap=False)
    core.write_cfg(cfg, constants=consts,
                   invariants=["ExpansionIsSpec", "PhfCompiles", "NeverDisabled", "RoundTrip", "AsciiOnly", "FlagTable"])
    res = core.tlc_mc("MC_FromStr.tla", cfg, "mc_" + PROP, workers=6, timeout=7200, xmx="12g")
    for a in ("SkipDisabled", "TakeDefault", "PushArms", "PushKeys", "Finish"):
        if res["coverage"].get(a, 0) == 0:
            raise core.ToolError("vacuity: action %s of MC_FromStr never taken" % a)
    return ("MC_FromStr", res, consts)


def run(tier, seed, rep):
    sz = SIZES[tier]
    rng = random.Random(seed * 7919 + 1)
    with ThreadPoolExecutor(max_workers=1) as ex:
        mc = ex.submit(model, rep, sz)
        cands = candidates(rng, sz)
        facts = pipe.domain_pass(cands, PROP)
        defs = [E for E in cands if facts[E["id"]]["wf"] and facts[E["id"]]["no"]]
        core.log("[C01] %d candidates, %d in the documented domain" % (len(cands), len(defs)))
        by_id = {E["id"]: E for E in defs}
        inputs = {E["id"]: SC.gen_inputs(E, facts[E["id"]], rng, sz["cap"], sz["flips"]) for E in defs}
        files = {E["id"]: SG.parse_module(E) for E in defs}
        exe, failed = pipe.build_corpus("c01", files, strum_features=("derive", "phf"))
        for did, msgs in failed.items():
            E = by_id[did]
            rep.violation(dict(kind="compile_error", msg=msgs[0][:80]),
                          "in-domain EnumString definition does not compile: %s" % msgs[0][:200],
                          dict(definition=E, errors=msgs, files={"def.rs": files[did]}))
        ok_ids = [i for i in by_id if i not in failed]
        evs = pipe.run_driver(exe, PROP, {i: inputs[i] for i in ok_ids}, seed)
        groups = pipe.group_by_def(by_id, evs)
        mism = pipe.validate_groups("Trace_Str", groups, PROP, rep, shard_bytes=sz["shard"], canary=canary)
        for ev, d, text in mism:
            rep.violation(dict(kind="parse_mismatch"), "EnumString result differs from ParseSpec: " + text[:300],
                          dict(definition=d, event_op=ev["op"], tlc=text,
                               files={"def.rs": files.get(d["id"], "") if d else ""}))
        name, res, consts = mc.result()
        rep.add_model(name, res, consts)
    n_calls = sum(len(e["ins"]) for e in evs if e.get("op") == "parse")
    evs = [e for e in evs if e.get("op") != "panic"]      # PANIC_FILTER: statistics only (panic events were judged by TLC above)
    rep.cov["programs"] = len(ok_ids)
    rep.cov["evaluations"] = 2 * n_calls
    rep.cov["distinct_nontrivial"] = sum(len(set(inputs[i])) for i in ok_ids if by_id[i]["variants"])
    rep.cov["rule"] = ("definitions = dictionary + exhaustive small shapes + seeded samples (<= 8 variants), filtered by the "
                       "specification's FromStrWF/NonOverlap; inputs per definition = every spelling, case flips, one-edit "
                       "neighbours, Unicode look-alikes, identifiers and naive re-casings, padded/empty/random strings; "
                       "a case is non-trivial when the definition has at least one variant; distinct = distinct "
                       "(definition, input) pairs; each is run through FromStr and TryFrom")
    rep.cov["samples"] = [dict(definition=uncp_def(by_id[ok_ids[k]]), inputs=inputs[ok_ids[k]][:6]) for k in range(min(3, len(ok_ids)))]
    rep.assumptions += ["rustc/cargo, the 1:1 definition printer and the generated decl_index/payload comparisons are trusted",
                        "model universe: <= 2 variants, strings <= 2 over {k,K,KELVIN,s,S,LONG-S,1}"]
    return rep


def uncp_def(E):
    return dict(id=E["id"], style=E["style"], aci=E["aci"],
                variants=[dict(id=uncp(v["id"]), kind=v["kind"], ser=[uncp(s) for s in v["ser"]],
                               ts=[uncp(s) for s in v["ts"]], dis=v["dis"], default=v["def"], aci=v["aci"]) for v in E["variants"]])
