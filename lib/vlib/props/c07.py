"""C07 - each serialize_all style renames identifiers to exactly that documented case."""
import itertools, random, json
from concurrent.futures import ThreadPoolExecutor
from .. import core, pipe, strcorpus as SC, strgen as SG, defs as D
from ..core import uncp, cp
from ..defs import variant, enum, STYLES, ALIASES, rs_str
from .c03 import report_compile_failures

PROP = "C07"
SIZES = dict(quick=dict(L=5, mcL=5), thorough=dict(L=7, mcL=6))
ALPHA = "abAB1_"
DICT = ["HTTPServer", "Ab12Cd", "V2", "XmlHttpRequest", "A", "Foo_Bar", "snake_id", "SHOUT", "TLS13", "Item9", "IOError",
        "Xml2Json", "ABc", "X1Y2", "__private", "Trailing_", "Dou__ble", "MiXeD", "ab1CD", "Z", "Ipv4Addr", "HTTP2",
        "Utf8Str", "B2B", "OAuth2Token", "Sha256Sum", "PascalCase", "aBC", "SCREAMING_SNAKE",
        "\u00c5ngstr\u00f6m", "Cr\u00e8me", "\u00c9clair", "\u00c0B", "Z\u00fcrich2", "caf\u00e9Au", "\u00d1and\u00da", "\u023alphaBeta", "\u03f4eta\u0398x", "a\u023e\u03b8", "red", "rgbValue", "r2d2", "rr_channel", "type", "fn", "match", "ref", "__", "_A_", "a__b"]


def identifiers(L):
    out = []
    for n in range(1, L + 1):
        for t in itertools.product(ALPHA, repeat=n):
            s = "".join(t)
            if s[0] == "1" or set(s) == {"_"} and n == 1:
                continue
            if s == "_":
                continue
            out.append(s)
    return out


def conv_module(k, style, ids):
    src = SG.HEADER
    src += "#[derive(strum::VariantNames)]\n#[strum(serialize_all = \"%s\")]\npub enum S%d {\n" % (style, k)
    src += "".join("    %s,\n" % D.rs_ident(i) for i in ids)       # keywords are written r#type; the identifier is the word itself
    src += "}\n"
    src += "static IDS: [&str; %d] = [%s];\n" % (len(ids), ", ".join('"%s"' % i for i in ids))
    src += ("pub fn run(o: &mut Out, ins: &std::collections::HashMap<u32, Vec<String>>, seed: u64) {\n"
            "    o.line(&format!(\"{{\\\"op\\\":\\\"conv\\\",\\\"def\\\":%d,\\\"style\\\":\\\"%s\\\",\\\"ids\\\":{},\\\"outs\\\":{}}}\", "
            "jstrs(&IDS), jstrs(<S%d as strum::VariantNames>::VARIANTS)));\n}\n" % (k, style, k))
    return src


def canary(grp):
    for e in grp:
        if e.get("op") == "conv":
            e["outs"][len(e["outs"]) // 2] = e["outs"][len(e["outs"]) // 2] + [95]
            return True
    return False


def model(tier):
    cfg = core.workdir("mc_" + PROP) + "/MC_Heck.cfg"
    consts = dict(MaxLen=SIZES[tier]["mcL"] - (1 if tier == "thorough" else 0), Latin1=(tier == "thorough"))
    core.write_cfg(cfg, constants=consts, invariants=["ScannerEqualsRule", "WordsPartition", "StyleShapes", "SnakifyShape"])
    res = core.tlc_mc("MC_Heck.tla", cfg, "mc_" + PROP, workers=6, timeout=7200, xmx="10g")
    for a in ("NextSegment", "Trailing", "SplitAfter", "SplitBefore", "Advance", "Finish"):
        if res["coverage"].get(a, 0) == 0:
            raise core.ToolError("vacuity: action %s of MC_Heck never taken" % a)
    return ("MC_Heck", res, consts)


def run(tier, seed, rep):
    sz = SIZES[tier]
    rng = random.Random(seed * 32452843 + 7)
    with ThreadPoolExecutor(max_workers=1) as ex:
        mc = ex.submit(model, tier)
        ids = identifiers(sz["L"])
        idset = set(ids)
        files, did = {}, 1
        conv_styles = {}
        # (a) every identifier up to L x the 11 documented styles; the dictionary x all 16 accepted strings
        for st in STYLES:
            files[did] = conv_module(did, st, ids + [d for d in DICT if d not in idset])
            conv_styles[did] = st
            did += 1
        for st in ALIASES:
            files[did] = conv_module(did, st, DICT + [i for i in ids[:400] if i not in DICT])
            conv_styles[did] = st
            did += 1
        # (b) the renamed identifier is used identically by every derive; explicit names are never re-cased
        cands = []
        for st in STYLES + ALIASES:
            for ci, chunk in enumerate((DICT[:15], DICT[15:-7], DICT[-7:])):
                vs = [variant(i, rng.choice(["unit", "unit", "tuple", "named"])) for i in chunk]
                for v in vs:
                    if v["kind"] != "unit":
                        v["fields"] = [D.field("u8", "val" if v["kind"] == "named" else "")]
                        v["nf"] = 1
                vs += [variant("Explicit", ser=["KeepMe_AsIs", "k"]), variant("Ts", ts="Also Kept"),
                       variant("Both", ser=["ser_Only"], ts="To_String"),
                       variant("SameAsIdent", ser=["SameAsIdent"]), variant("TsSameAsIdent", ts="TsSameAsIdent"),
                       ] + ([variant("EmptyOnly", ser=[""])] if ci == 0 else [])      # an empty explicit name is a name (only in the first chunk: the last one holds an identifier whose styled form is empty, and an empty spelling switches off length- and first-byte shortcuts that the chunk of non-ASCII initials is there to exercise)
                # a prefix is written in front of the name as given: the style renames the identifier, never the prefix
                cands.append(enum(did, vs, style=st, cis=bool(did % 2), aci=bool((did // 2) % 2),
                                  prefix=[None, "Pre.Fix/", None, "onX "][did % 4] if ci == 0 else None))   # (only the first chunk: the round trip through EnumString is claimed for enums without a prefix)
                did += 1
        facts = pipe.domain_pass(cands, PROP)
        defs = [E for E in cands if facts[E["id"]]["wf"] and facts[E["id"]]["no"] and facts[E["id"]]["wfn"]]
        if len(defs) != len(cands):
            core.log("[C07] %d of %d dictionary definitions are outside the domain" % (len(cands) - len(defs), len(cands)))
        by_id = {E["id"]: E for E in defs}
        for E in defs:
            files[E["id"]] = SG.names_module(E, derives=("Display", "AsRefStr", "IntoStaticStr", "VariantNames"), dep=True,
                                             parse=True, sers=True)
        exe, failed = pipe.build_corpus("c07", files)
        for did_, msgs in failed.items():
            rep.violation(dict(kind="compile_error", msg=msgs[0][:80]), "serialize_all corpus does not compile: " + msgs[0][:200],
                          dict(definition=by_id.get(did_, conv_styles.get(did_)), errors=msgs, files={"def.rs": files[did_][:20000]}))
        evs = pipe.run_driver(exe, PROP, {}, seed)
        convs = [e for e in evs if e["op"] == "conv"]
        others = [e for e in evs if e["op"] != "conv"]
        groups = [[e] for e in convs] + pipe.group_by_def(by_id, others)
        mism = pipe.validate_groups("Trace_Str", groups, PROP, rep, shard_bytes=1_200_000, canary=canary, par=8)
        for ev, d, text in mism:
            rep.violation(dict(kind="case_mismatch", op=ev["op"]), "identifier not renamed as the style documents: " + text[:300],
                          dict(definition=d, event_op=ev["op"], style=ev.get("style"), tlc=text))
        name, res, consts = mc.result()
        rep.add_model(name, res, consts)
    nconv = sum(len(e["ids"]) for e in convs)
    evs = [e for e in evs if e.get("op") != "panic"]      # PANIC_FILTER: statistics only (panic events were judged by TLC above)
    rep.cov["programs"] = len(files) - len(failed)
    rep.cov["evaluations"] = nconv + len(others)
    rep.cov["distinct_nontrivial"] = len({(e["style"], tuple(i)) for e in convs for i in e["ids"]})
    rep.cov["exhaustive"] = True
    rep.cov["rule"] = ("EVERY valid identifier of length <= %d over {a,b,A,B,1,_} (%d) plus a %d-name dictionary, x the 11 "
                       "documented styles through VariantNames (aliases: dictionary + 400 identifiers); dictionary enums x all 16 "
                       "accepted style strings through Display, AsRef, IntoStaticStr, ToString, AsStaticStr, VariantNames, "
                       "EnumString (parse back) and get_serializations; distinct = (style, identifier)" % (sz["L"], len(ids), len(DICT)))
    rep.cov["samples"] = [dict(style=e["style"], ident=uncp(e["ids"][k]), out=uncp(e["outs"][k])) for e in convs[:4] for k in (len(e["ids"]) - 30, 100)]
    rep.assumptions += ["identifiers are ASCII (heck's Unicode case tables are not modelled)",
                        "the tree accepts 16 style strings (11 documented + 5 aliases); the check covers exactly those"]
    return rep
