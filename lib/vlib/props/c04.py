"""C04 - EnumIter yields every enabled variant exactly once, in declaration order."""
import itertools, random
from concurrent.futures import ThreadPoolExecutor
from .. import core, pipe, itergen as IG
from .c03 import report_compile_failures

from ..core import COMMON_DIMENSIONS
PROP = "C04"
SIZES = dict(quick=dict(full_masks=5, sampled=40, mcV=7), thorough=dict(full_masks=7, sampled=600, mcV=10))


def canary(grp):
    for e in grp:
        if e.get("op") == "itlist" and e["fwd"]:
            e["fwd"] = e["fwd"][1:] + e["fwd"][:1] if len(e["fwd"]) > 1 else [e["fwd"][0] + 1]
            return True
    return False


def model(tier):
    cfg = core.workdir("mc_" + PROP) + "/MC_IterExpand.cfg"
    consts = dict(MaxV=SIZES[tier]["mcV"])
    core.write_cfg(cfg, constants=consts, invariants=["TableIsIterList", "CountIsLen", "OnePerVariant", "SamePositions", "StrictlyIncreasing", "NoDisabled"])
    res = core.tlc_mc("MC_IterExpand.tla", cfg, "mc_" + PROP, workers=4, timeout=3600, xmx="8g")
    for a in ("SkipDisabled", "AssignIndex", "Finish"):
        if res["coverage"].get(a, 0) == 0:
            raise core.ToolError("vacuity: action %s never taken" % a)
    return ("MC_IterExpand", res, consts)


def definitions(rng, sz):
    defs, did = [], 1
    # EVERY disabled mask for n <= full_masks
    for n in range(0, sz["full_masks"] + 1):
        for mask in itertools.product([0, 1], repeat=n):
            defs.append(IG.shape(rng, did, n, mask, generics=rng.choice(["none", "none", "ty", "const", "tywhere", "tyconst", "tydef", "constdef"]) if n else "none"))
            did += 1
    defs.append(IG.selfref_def(did)); did += 1
    defs.append(IG.selfref_def(did)); did += 1          # once with, once without the decoys (they go by parity)
    for pos in ("first", "middle", "last"):
        defs.append(IG.default_disabled_def(did, pos)); did += 1
    defs.append(IG.nodefault_def(did)); did += 1
    defs.append(IG.unsized_def(did)); did += 1
    defs.append(IG.unsized_def(did)); did += 1
    # a field-less enum with a primitive repr whose explicit discriminants are a PERMUTATION of 0..n (declaration order is what counts,
    # whatever the numeric values would suggest), and one that is not dense
    from ..defs import variant as _v, enum as _e
    for rp, vals in (("u8", [2, 1, 0]), ("u16", [1, 0, 3, 2]), ("u8", [10, 11, 12]), ("u32", [0, 1, 2])):
        defs.append(_e(did, [_v(IG.IDS[i], disc=x) for i, x in enumerate(vals)], repr_=rp)); did += 1
    # more variants than a byte counts: 300 unit variants (10% disabled), 270 mixed ones
    defs.append(IG.shape(rng, did, 300, [1 if rng.random() < 0.1 else 0 for _ in range(300)], kinds="unit")); did += 1
    defs.append(IG.shape(rng, did, 270, [1 if rng.random() < 0.1 else 0 for _ in range(270)])); did += 1
    for k in range(sz["sampled"]):
        n = rng.randint(sz["full_masks"] + 1, 12)
        mask = [1 if rng.random() < 0.35 else 0 for _ in range(n)]
        defs.append(IG.shape(rng, did, n, mask, generics=rng.choice(["none", "ty", "const"])))
        did += 1
    return defs


def run(tier, seed, rep):
    sz = SIZES[tier]
    rng = random.Random(seed * 1299709 + 31)
    with ThreadPoolExecutor(max_workers=1) as ex:
        mc = ex.submit(model, tier)
        defs = definitions(rng, sz)
        by_id = {E["id"]: E for E in defs}
        files = {E["id"]: IG.list_module(E) for E in defs}
        exe, failed = pipe.build_corpus("c04", files)
        report_compile_failures(rep, failed, by_id, files, "EnumIter + EnumCount")
        evs = pipe.run_driver(exe, PROP, {}, seed)
        groups = pipe.group_by_def(by_id, evs)
        mism = pipe.validate_groups("Trace_Iter", groups, PROP, rep, shard_bytes=1_500_000, canary=canary)
        for ev, d, text in mism:
            rep.violation(dict(kind="iterlist_mismatch"), "iteration differs from the enabled variants in declaration order: " + text[:300],
                          dict(definition=d, event=ev, tlc=text, files={"def.rs": files.get(d["id"], "") if d else ""}))
        name, res, consts = mc.result()
        rep.add_model(name, res, consts)
    evs = [e for e in evs if e.get("op") != "panic"]      # PANIC_FILTER: statistics only (panic events were judged by TLC above)
    rep.cov["programs"] = len(defs) - len(failed)
    rep.cov["evaluations"] = len(evs)
    rep.cov["distinct_nontrivial"] = len({(len(E["variants"]), tuple(v["dis"] for v in E["variants"])) for E in defs if any(v["dis"] for v in E["variants"])})
    rep.cov["exhaustive"] = True
    rep.cov["rule"] = ("EVERY disabled mask for 0..%d variants (first/middle/last/adjacent/all) x variant kinds x type/const generic "
                       "parameters, + %d sampled masks on up to 12 variants; per definition: iter().collect(), iter().rev().collect(), "
                       "per-item payload == Default, EnumCount::COUNT, len(); distinct_nontrivial = distinct masks with at least one "
                       "disabled variant" % (sz["full_masks"], sz["sampled"]))
    rep.cov["rule"] += ' + a self-referential enum whose Default goes through iter(); enums of 270 and 300 variants'
    rep.cov["rule"] += COMMON_DIMENSIONS
    rep.cov["samples"] = [dict(def_=e["def"], mask=[v["dis"] for v in by_id[e["def"]]["variants"]], fwd=e["fwd"], count=e["count"]) for e in evs[20:24]]
    rep.assumptions += ["rustc/cargo, the 1:1 printer and the generated decl_index/payload comparisons are trusted"]
    return rep
