"""C05 - the derived iterator obeys the double-ended, exact-size, fused iterator contract."""
import random
from concurrent.futures import ThreadPoolExecutor
from .. import core, pipe, itergen as IG
from .c03 import report_compile_failures

from ..core import COMMON_DIMENSIONS
PROP = "C05"
# depth of the exhaustive exploration per number of enabled variants
SIZES = dict(quick=dict(depth=lambda n: 3 if n <= 4 else 2 if n <= 20 else 1, steps=150, mcN=5, mcH=2, W=4),
             # (the alphabet has 2N + 24 operations per state since the far-beyond arguments were added: depth 3 over every N <= 8 is ~1.3 million
             # calls in two profiles; the deeper trees of earlier versions no longer fit into memory and add no new cursor pair)
             thorough=dict(depth=lambda n: 3 if n <= 8 else 2 if n <= 20 else 1, steps=600, mcN=7, mcH=3, W=5))


def canary(grp):
    for e in grp:
        if e.get("op") == "it" and e["call"] in ("nth", "next") and e["len"] > 0:
            e["len"] += 1
            return True
    return False


def models(tier):
    sz = SIZES[tier]
    out = []
    d = core.workdir("mc_" + PROP)
    cfg = d + "/MC_Iter.cfg"
    consts = dict(MaxN=sz["mcN"], MaxH=sz["mcH"])
    core.write_cfg(cfg, constants=consts, invariants=["WellFormed", "YieldInWindow", "NoneOnlyWhenShort", "LenExact", "SameListBothEnds"],
                   properties=["Fused", "Shrinks"])
    res = core.tlc_mc("MC_Iter.tla", cfg, "mc_" + PROP + "a", workers=4, timeout=7200, xmx="8g")
    for a in ("DoNext", "DoNextBack", "DoNth", "DoNthBack", "DoClone", "DoDrop"):
        if res["coverage"].get(a, 0) == 0:
            raise core.ToolError("vacuity: action %s of MC_Iter never taken" % a)
    out.append(("MC_Iter", res, consts))
    for mode in ("debug", "release"):
        cfg = d + "/MC_IterImpl_%s.cfg" % mode
        consts = dict(W=sz["W"], MaxN=min(sz["mcN"], 2 ** (sz["W"] - 1) - 2), Mode=mode, Saturating=True)
        core.write_cfg(cfg, constants=consts, invariants=["NoPanic", "ResultRefines", "LenRefines", "WindowRefines", "CursorsBounded"])
        res = core.tlc_mc("MC_IterImpl.tla", cfg, "mc_" + PROP + mode, workers=4, timeout=7200, xmx="8g")
        for a in ("CallNth", "CallNthBack"):
            if res["coverage"].get(a, 0) == 0:
                raise core.ToolError("vacuity: action %s of MC_IterImpl never taken" % a)
        out.append(("MC_IterImpl", res, consts))
    # unbounded N and unbounded arguments: Apalache discharges an inductive invariant of the abstract contract
    ap = core.apalache_inductive(core.SPEC + "/apalache", "ApaIter")
    out.append(("ApaIter (Apalache, inductive invariant IndInv: Init => IndInv, IndInv /\\ Next => IndInv')",
                dict(states=2, transitions=2, depth=1, wall=ap["wall"], coverage={}), dict(N="symbolic", n="symbolic")))
    return out


def definitions(rng):
    defs, did = [], 1
    for n_en in range(0, 9):
        # without disabled variants
        defs.append(IG.shape(rng, did, n_en, [0] * n_en, generics=rng.choice(["none", "ty", "const", "tydef", "constdef"]) if n_en else "none"))
        did += 1
        # with interleaved disabled ones (first / middle / last / adjacent)
        total = min(12, n_en + rng.choice([1, 2, 3]))
        pos = set(rng.sample(range(total), total - n_en))
        defs.append(IG.shape(rng, did, total, [1 if i in pos else 0 for i in range(total)], generics=rng.choice(["none", "tywhere", "tyconst"]) if n_en else "none"))
        did += 1
    for pos in ("first", "middle", "last"):
        defs.append(IG.default_disabled_def(did, pos)); did += 1
    # a parameter without a Default bound (payloads Default for every T); a parameter that may be unsized
    defs.append(IG.nodefault_def(did)); did += 1
    defs.append(IG.unsized_def(did)); did += 1
    # sizes around the limits of narrow integers: 200 enabled variants (128..254), 300 with some disabled (> 255)
    defs.append(IG.shape(rng, did, 200, [0] * 200, kinds="unit")); did += 1
    defs.append(IG.shape(rng, did, 300, [1 if i % 13 == 4 else 0 for i in range(300)], kinds="unit")); did += 1
    return defs


def key(ev):
    return dict(kind="iter_mismatch", call=ev.get("call"), big=bool(ev.get("big")), prof=ev.get("prof"))


def run(tier, seed, rep):
    sz = SIZES[tier]
    rng = random.Random(seed * 2038074743 + 29)
    with ThreadPoolExecutor(max_workers=1) as ex:
        mc = ex.submit(models, tier)
        defs = definitions(rng)
        by_id = {E["id"]: E for E in defs}
        files = {}
        for E in defs:
            n_en = sum(1 for v in E["variants"] if not v["dis"])
            files[E["id"]] = IG.iter_module(E, sz["depth"](n_en), sz["steps"])
        evs = []
        for release in (False, True):
            exe, failed = pipe.build_corpus("c05", files, release=release)
            report_compile_failures(rep, failed, by_id, files, "EnumIter (incl. the Send + Sync assertion on the iterator type)")
            evs += pipe.run_driver(exe, PROP + ("r" if release else "d"), {}, seed)
        # one group per (definition, profile): the trace spec resets its handle table at every definition event
        groups = []
        for prof in ("dev", "release"):
            groups += pipe.group_by_def(by_id, [e for e in evs if e.get("prof") == prof])
        mism = pipe.validate_groups("Trace_Iter", groups, PROP, rep, shard_bytes=3_000_000, canary=canary, par=8)
        for ev, d, text in mism:
            rep.violation(key(ev), "iterator call is not a step of the contract: " + text[:400],
                          dict(definition=d, event=ev, tlc=text, files={"def.rs": files.get(d["id"], "") if d else ""}))
        for name, res, consts in mc.result():
            rep.add_model(name, res, consts)
    evs = [e for e in evs if e.get("op") != "panic"]      # PANIC_FILTER: statistics only (panic events were judged by TLC above)
    calls = [e for e in evs if e["op"] in ("it", "itobs")]
    rep.cov["programs"] = 2 * len(defs)
    rep.cov["evaluations"] = len(calls)
    rep.cov["distinct_nontrivial"] = len({(e["def"], e["prof"], e.get("from"), e["call"], e["n"], e["big"], tuple(e.get("rest", e.get("items", [])))) for e in calls})
    rep.cov["big_argument_calls"] = sum(1 for e in calls if e.get("big"))
    rep.cov["exhaustive"] = True
    rep.cov["rule"] = ("enums with N = 0..8 enabled variants (with and without interleaved disabled ones, all kinds, generic parameters), "
                       "dev and release profiles; EVERY operation sequence up to depth D (quick: 3 for N<=4 else 2; thorough: 3 for N<=8 else 2) over "
                       "{next, next_back, nth(k), nth_back(k)} with k in 0..N+1 and usize::MAX-1, usize::MAX, each edge applied to a clone of its "
                       "parent state, plus seeded random histories with 4 live handles, explicit clone/drop and skip/step_by/rev/take; after "
                       "every call: result, len(), size_hint(), clone().collect(); distinct = distinct (definition, profile, parent, call, "
                       "argument, resulting state)")
    rep.cov["rule"] += ' + enums of 200 and 300 variants (depth-1 tree over all arguments + random history); far-beyond arguments usize::MAX, MAX-1, 2^8, 2^8+1, 2^16, 2^16+2, 2^32, 2^32+1, 2^63'
    rep.cov["rule"] += COMMON_DIMENSIONS
    rep.cov["samples"] = [dict(def_=e["def"], prof=e["prof"], call=e["call"], arg=e["bigk"] or e["n"], res=e["res"], len=e["len"], rest=e["rest"]) for e in calls[5:200:40] if e["op"] == "it"]
    rep.assumptions += ["W-bit word model: arithmetic only adds and compares with COUNT, so W=4/5 stands for W=64 while 2*COUNT < 2^W",
                        "the Apalache run covers the abstract contract for symbolic N and arguments (2 proof obligations), the W-bit refinement is bounded",
                        "Send + Sync of the iterator type is decided by rustc on a generated assertion with T = Rc<u8>",
                        "usize arguments beyond N+1 are represented in the trace by their class (big)"]
    return rep
