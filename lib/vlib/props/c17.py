"""C17 - Display renders fixed names like a str and placeholders like format!."""
import random
from concurrent.futures import ThreadPoolExecutor
from .. import core, pipe, strcorpus as SC, strgen as SG, defs as D
from ..core import uncp, cp
from ..defs import variant, enum, field
from .c03 import report_compile_failures

PROP = "C17"
SIZES = dict(quick=dict(fixed=60, interp=160, grid="quick"), thorough=dict(fixed=500, interp=3000, grid="thorough"))
TEXTS = ["", "a ", " - ", "é", "{{", "}}", "{{}}", "x:y ", " ", "=", "€ ", "{{0}}", "[", "]"]
SPECS = {"u8": ["", ">4", "<5", "^7", "03", "+", "x", "#x", "#010b"], "i32": ["", ">12", "<3", "+", "011", "e"][:5],
         "i64": ["", ">22", "+", "x"], "String": ["", ">6", "<6", "*^7", ".2", "8.3", "é>5"], "bool": ["", ">6", "^7"],
         "char": ["", ">3", "*<4"], "u16": ["", "06", "#06x"]}
VALS = {"u8": ["0u8", "255u8", "7u8"], "i32": ["0i32", "-1i32", "i32::MIN", "i32::MAX"], "i64": ["i64::MIN", "i64::MAX", "-9i64"],
        "String": ['String::new()', 'String::from("pay")', 'String::from("\\u{e9}\\u{20ac}")', 'String::from("{brace}")'],
        "bool": ["true", "false"], "char": ["'q'", "'\\u{e9}'"], "u16": ["65535u16", "0u16"], "usize": ["0usize", "3usize", "9usize"]}
# width / precision taken from another field (`{text:>wd$}`, `{0:.1$}`): @ stands for the parameter's name or index
PARAM_SPECS = {"String": [">@$", "<@$", ".@$", "*^@$", "@$.1"], "u8": [">@$", "0@$"], "i32": ["+@$", "<@$"], "char": [">@$"]}


def canary(grp):
    for e in grp:
        if e.get("op") == "fmt":
            e["outs"][3] = e["outs"][3] + [32]
            return True
        if e.get("op") == "interp":
            e["obs"] = e["obs"] + [32]
            return True
    return False


def model(tier):
    cfg = core.workdir("mc_" + PROP) + "/MC_Display.cfg"
    consts = dict(LitLen=5 if tier == "quick" else 7, MaxW=6 if tier == "quick" else 9)
    core.write_cfg(cfg, constants=consts, invariants=["MachineIsScan", "ScannerFindsGrammarArgs", "NoBracesNoArgs", "FmtLen"])
    res = core.tlc_mc("MC_Display.tla", cfg, "mc_" + PROP, workers=6, timeout=7200, xmx="10g")
    for a in ("StripEscapes", "OpenBrace", "CloseBrace", "OtherChar", "EndOfLiteral"):
        if res["coverage"].get(a, 0) == 0:
            raise core.ToolError("vacuity: action %s of MC_Display never taken" % a)
    return ("MC_Display", res, consts)


def interp_variant(rng, ident, kind):
    nf = rng.choice([1, 2, 2, 3])
    tys = [rng.choice(list(SPECS)) for _ in range(nf)]
    names = rng.sample(SC.FIELD_NAMES, nf)
    fields = [field(t, names[k] if kind == "named" else "") for k, t in enumerate(tys)]
    # which fields appear, in which order (tuple literals must mention every position - format! itself demands it)
    if kind == "tuple":
        order = list(range(1, nf + 1))
    else:
        order = rng.sample(range(1, nf + 1), rng.randint(1, nf))
    extra = [rng.randint(1, nf) for _ in range(rng.choice([0, 0, 1]))]
    order = order + [f for f in extra if kind == "named" or True]
    rng.shuffle(order)
    lit, ph = rng.choice(TEXTS), []
    for f in order:
        spec = rng.choice(SPECS[tys[f - 1]])
        arg = str(f - 1) if kind == "tuple" else names[f - 1]
        lit += "{" + arg + (":" + spec if spec else "") + "}" + rng.choice(TEXTS)
        ph.append(dict(f=f, spec=spec))
    # a usize field that serves as the width / precision of another field's placeholder (and is perhaps printed nowhere)
    cands_p = [f for f in range(1, nf + 1) if tys[f - 1] in PARAM_SPECS]
    if cands_p and rng.random() < 0.4:
        f = rng.choice(cands_p)
        pname = [n for n in SC.FIELD_NAMES if n not in names][0]
        fields.append(field("usize", pname if kind == "named" else ""))
        tys.append("usize")
        names.append(pname)
        pidx = len(fields)
        tmpl = rng.choice(PARAM_SPECS[tys[f - 1]])
        pref = pname if kind == "named" else str(pidx - 1)
        arg = str(f - 1) if kind == "tuple" else names[f - 1]
        lit += "{" + arg + ":" + tmpl.replace("@", pref) + "}" + rng.choice(TEXTS)
        ph.append(dict(f=f, spec=tmpl.replace("@", pref), tmpl=tmpl, param=pidx))
        if rng.random() < 0.3:
            lit += "{" + pref + "}"
            ph.append(dict(f=pidx, spec=""))
    v = variant(ident, kind, fields, ts=lit, ser=rng.choice([[], ["alias"]]))
    v["ph"] = ph
    v["vals"] = [[rng.choice(VALS[t]) for t in tys] for _ in range(2)]
    return v


def candidates(rng, sz):
    cands, did = [], 1
    for k in range(sz["fixed"]):
        E = SC.names_def(rng, did, allow_prefix=True)
        E["variants"] = [v for v in E["variants"]]
        cands.append(E)
        did += 1
    # fixed names that contain braces but no argument (printed verbatim), on every kind
    cands.append(enum(did, [variant("EscUnit", ts="{{x}}"), variant("EscTuple", "tuple", [field("u8")], ts="a{{}}b"),
                            variant("EscNamed", "named", [field("u8", "val")], ser=["}}{{"])]))
    did += 1
    # a literal that is just one placeholder: with a spec, hugged by escaped braces, on tuple and named variants
    def sole(ident, kind, lit, spec):
        v = variant(ident, kind, [field("u8", "x" if kind == "named" else "")], ts=lit)
        v["ph"] = [dict(f=1, spec=spec)]
        v["vals"] = [["7u8"], ["255u8"]]
        return v
    cands.append(enum(did, [sole("A", "tuple", "{0:>4}", ">4"), sole("B", "named", "{x:03}", "03"), sole("C", "tuple", "{{{0}}}", ""),
                            sole("D", "tuple", "{0}}}", ""), sole("E", "named", "{{{x:>2}", ">2"), sole("F", "tuple", "{0}", "")]))
    did += 1
    cands.append(enum(did, [sole("A", "tuple", "{0:>4}", ">4"), sole("B", "named", "{x:03}", "03")], prefix="p"))
    did += 1
    # payloads that are exclusive references: arms must bind them by reference (nothing may be moved out of `&self`)
    def mref(ident, kind, lit, ph):
        v = variant(ident, kind, [field("mutref", "r" if kind == "named" else "")], ts=lit)
        if ph is not None:
            v["ph"] = [dict(f=1, spec=ph)]
            v["vals"] = [["7u8"], ["255u8"]]
        return v
    E = enum(did, [mref("FixT", "tuple", None, None), mref("FixN", "named", "fixed", None), mref("IntT", "tuple", "<{0}>", ""),
                   mref("IntN", "named", "{r:>4}!", ">4"), variant("Plain")], generics="lt")
    E["std_derives"] = ("Debug",)
    cands.append(E)
    did += 1
    # a type parameter that is Debug but not Display, printed with {:?}: the impl must not demand more than the literal uses
    def dbg(ident, kind, lit, spec):
        v = variant(ident, kind, [field("T", "t" if kind == "named" else ""), field("u8", "n" if kind == "named" else "")], ts=lit)
        v["ph"] = [dict(f=1, spec=spec), dict(f=2, spec="")]
        v["vals"] = [["DbgOnly(7)", "1u8"], ["DbgOnly(0)", "2u8"]]
        return v
    cands.append(enum(did, [dbg("A", "tuple", "{0:?}/{1}", "?"), dbg("B", "named", "{n}={t:#?}", "#?"), variant("Plain")], generics="tydbg"))
    did += 1
    # `default` next to a to_string: the literal is what Display shows - with its placeholder filled in, or verbatim
    def dflt(ident, lit, interp):
        v = variant(ident, "tuple", [field("String")], ts=lit, default=True)
        if interp:
            v["ph"] = [dict(f=1, spec="")]
            v["vals"] = [['String::from("cmd")'], ['String::new()']]
        return v
    cands.append(enum(did, [variant("Known"), dflt("Other", "unknown command `{0}`", True)])); did += 1
    cands.append(enum(did, [dflt("Other", "fixed text", False), variant("Known")], prefix="p:")); did += 1
    idents = ["Red", "Green", "Blue", "Cyan"]
    for k in range(sz["interp"] // 3):
        vs = [interp_variant(rng, idents[j], rng.choice(["tuple", "named"])) for j in range(3)]
        vs.append(variant("Plain"))
        if k % 2:
            # fixed names on payload variants declared AFTER interpolating ones (no state may carry over between variants)
            vs.append(variant("FixedNamed", "named", [field("u8", "zq"), field("String", "zr")], ts=rng.choice([None, "sq", "a{{b}}"])))
            vs.append(variant("FixedTuple", "tuple", [field("u8")], ser=rng.choice([[], ["ft", "f"]])))
        cands.append(enum(did, vs, prefix=rng.choice([None, None, "p:", "é"]), style=rng.choice(["none", "snake_case"])))
        did += 1
    # placeholders of a struct-like variant may name constants of the surrounding scope (format strings capture them): on their own, next to
    # a real field, and as a width parameter.  The record lists them after the real fields with `scope` set; they are not part of the enum.
    def scoped(name, ty):
        f = field(ty, name)
        f["scope"] = True
        return f
    v1 = variant("Release", "named", [field("String", "notes"), scoped("VERSION", "u16")], ts="v{VERSION}")
    v1["ph"], v1["vals"] = [dict(f=2, spec="")], [['String::from("n")', "VERSION"], ['String::new()', "VERSION"]]
    v2 = variant("Tagged", "named", [field("String", "tag"), scoped("VERSION", "u16"), scoped("WIDTH", "usize")], ts="{{{tag:>WIDTH$}}}/{VERSION:03}-{tag}")
    v2["ph"] = [dict(f=1, spec=">WIDTH$", tmpl=">@$", param=3), dict(f=2, spec="03"), dict(f=1, spec="")]
    v2["vals"] = [['String::from("rc")', "VERSION", "WIDTH"], ['String::from("a long tag")', "VERSION", "WIDTH"]]
    E = enum(did, [v1, v2, variant("Plain")])
    E["extra_items"] = "pub const VERSION: u16 = 3;\npub const WIDTH: usize = 6;\n"
    cands.append(E); did += 1
    # keys meant for EnumString (`default_with` on a variant) change nothing for Display: the variant keeps its fixed name
    cands.append(enum(did, [variant("Timeout", "tuple", [field("u8")], dwith="dw_u8"), variant("OffWhite", "tuple", [field("String")], dwith="dw_string", ser=["ow", "off-white"]),
                            variant("Plain")], prefix="colour/", style="snake_case")); did += 1
    cands.append(enum(did, [variant("Plain"), variant("Flag", "tuple", [field("bool")], dwith="dw_bool")])); did += 1
    return cands


def run(tier, seed, rep):
    sz = SIZES[tier]
    rng = random.Random(seed * 982451653 + 19)
    with ThreadPoolExecutor(max_workers=1) as ex:
        mc = ex.submit(model, tier)
        cands = candidates(rng, sz)
        facts = pipe.domain_pass(cands, PROP)
        defs = [E for E in cands if facts[E["id"]]["wfn"] and facts[E["id"]]["dwf"]]
        core.log("[C17] %d candidates, %d in the documented domain" % (len(cands), len(defs)))
        by_id = {E["id"]: E for E in defs}
        files = {E["id"]: SG.display_module(E, facts[E["id"]]) for E in defs}
        exe, failed = pipe.build_corpus("c17", files)
        report_compile_failures(rep, failed, by_id, files, "Display")
        ok_ids = [i for i in by_id if i not in failed]
        evs = pipe.run_driver(exe, PROP, {}, seed, env=dict(VERIF_GRID=sz["grid"]))
        groups = pipe.group_by_def(by_id, evs)
        mism = pipe.validate_groups("Trace_Str", groups, PROP, rep, shard_bytes=2_500_000, canary=canary, par=8)
        for ev, d, text in mism:
            rep.violation(dict(kind="display_mismatch", op=ev["op"]), "Display output differs from the specified rendering: " + text[:300],
                          dict(definition=d, event_op=ev["op"], tlc=text, files={"def.rs": files.get(d["id"], "") if d else ""}))
        name, res, consts = mc.result()
        rep.add_model(name, res, consts)
    evs = [e for e in evs if e.get("op") != "panic"]      # PANIC_FILTER: statistics only (panic events were judged by TLC above)
    fm = [e for e in evs if e["op"] == "fmt"]
    it = [e for e in evs if e["op"] == "interp"]
    rep.cov["programs"] = len(ok_ids)
    rep.cov["evaluations"] = 2 * sum(len(e["outs"]) for e in fm) + 2 * len(it)
    rep.cov["distinct_nontrivial"] = sum(len(e["outs"]) for e in fm) + len({(e["def"], e["i"], tuple(e["obs"])) for e in it})
    rep.cov["interp_events"] = len(it)
    rep.cov["rule"] = ("(i) fixed names: every kind x naming attributes x prefix x multi-byte names under the grid fill{' ','*','e-acute'} x "
                       "align{none,<,^,>} x width x precision (quick: 6 widths x 5 precisions, thorough: 0..16 x none/0..8); each output and "
                       "std's rendering of the same &str must equal FmtStr; (ii) placeholders: tuple/named variants, literals over subsets "
                       "and orders of fields (tuple literals mention every position) with nested specs and escaped braces next to "
                       "placeholders, extreme payloads; distinct = (definition, variant, spec) resp. distinct rendered values")
    rep.cov["samples"] = ([dict(def_=e["def"], variant=e["i"], spec=e["specs"][7], out=uncp(e["outs"][7])) for e in fm[:2]] +
                          [dict(def_=e["def"], variant=e["i"], literal=uncp(by_id[e["def"]]["variants"][e["i"] - 1]["ts"][0]), out=uncp(e["obs"])) for e in it[:4]])
    rep.assumptions += ["std's rendering of one primitive field under one spec is the atom of interpolation",
                        "an outer width/precision on interpolated variants is outside the property",
                        "tuple literals that omit a positional field are outside the domain: format! itself rejects an unused positional argument"]
    return rep
