"""C16 - use_phf is a pure optimisation of EnumString."""
import random, copy
from .. import core, pipe, parsecheck as PC, strcorpus as SC
from .. import defs as D
from ..defs import variant, enum, field

PROP = "C16"
SIZES = dict(quick=dict(sample=200, cap=160, flips=6), thorough=dict(sample=3000, cap=1500, flips=10))
SPELL = ["Blue", "blue", "BLUE", "bLuE", "12", "-", "", "été", "ÉTÉ", "K", "k", "a b", "x_Y", "ß", "Ab1", "7up", "#"]


def model(tier):
    cfg = core.workdir("mc_" + PROP) + "/MC_FromStr.cfg"
    consts = dict(Size=1 if tier == "quick" else 2, Dedup=True, Overlap=True)
    core.write_cfg(cfg, constants=consts, invariants=["PhfCompiles", "ExpansionIsSpec", "NeverDisabled"])
    res = core.tlc_mc("MC_FromStr.tla", cfg, "mc_" + PROP, workers=6, timeout=7200, xmx="12g")
    for a in ("PushKeys", "PushArms", "TakeDefault", "SkipDisabled"):
        if res["coverage"].get(a, 0) == 0:
            raise core.ToolError("vacuity: action %s of MC_FromStr never taken" % a)
    return ("MC_FromStr", res, consts)


def fieldless(E):
    """unit variants only, except the default catch-all (which never enters the map)"""
    for k, v in enumerate(E["variants"]):
        if not v["def"]:
            # field-less: a unit variant, or an empty field list `V()` / `V {}` where the sampled variant had fields
            kind = v["kind"] if (v["kind"] != "unit" and (k + len(E["variants"])) % 2) else "unit"
            v["kind"], v["fields"], v["nf"], v["dwith"] = kind, [], 0, ""
    E["generics"] = "none"
    E["variants"] = [v for v in E["variants"] if not uncarrier(v)]
    return E


def uncarrier(v):
    from ..core import uncp
    return uncp(v["id"]).startswith("Carrier")


def candidates(rng, n):
    base = []
    # every spelling class x case-insensitivity at enum and variant level, next to a plain and a disabled variant
    for eaci in (False, True):
        for vaci in (2, 1, 0):
            for sp in SPELL:
                base.append(enum(0, [variant("Target", ser=[sp], aci=vaci), variant("Plain"),
                                     variant("Off", dis=True, ser=["off"]), variant("Two", ser=["two", "TWO"], ts="Two", aci=vaci)],
                                 aci=eaci))
    base.append(enum(0, [variant("Known", ser=["known"], aci=1), variant("Other", "tuple", [field("String")], default=True)]))
    base.append(enum(0, [variant("Red"), variant("Blue", ser=["b", "blue"]), variant("Other", "tuple", [field("String")], default=True)]))
    base.append(enum(0, [variant("Other", "named", [field("String", "text")], default=True), variant("Red")], style="snake_case"))
    base.append(enum(0, [variant("Same", ser=["same"], ts="same")]))            # the same literal twice on one variant
    # overlapping spellings on which first-match-wins is still well defined for both parsers (PhfConsistent)
    base.append(enum(0, [variant("LegacyGet", ser=["get"]), variant("Get", aci=1), variant("Put", ser=["put", "PUT"])]))
    base.append(enum(0, [variant("Head", aci=0, ser=["head"]), variant("HEAD"), variant("Tail")], aci=True))
    base.append(enum(0, [variant("A", ser=["x"], aci=1), variant("B", ser=["X"], aci=1), variant("C", ser=["x"])]))
    base.append(enum(0, [variant("Mon"), variant("Tue"), variant("Off1", dis=True), variant("Off2", dis=True), variant("Off3", dis=True),
                         variant("Same", ser=["Mon2"]), variant("Other", "tuple", [field("String")], default=True)]))
    base.append(enum(0, [variant("Mon"), variant("Tue"), variant("Off1", dis=True), variant("Off2", dis=True), variant("Wed"), variant("Thu", dis=True)]))
    base.append(enum(0, [variant("Loose", ser=["Red"], aci=1), variant("Get", ser=["get"], aci=0), variant("Longest", ser=["Crimson"], aci=1), variant("Plain")]))
    base.append(enum(0, [variant("One", ser=["1", "one"], aci=1), variant("Plus", ser=["+"], ts="plus", aci=1), variant("Empty", ser=["", "none"], aci=1), variant("Plain")]))
    base.append(enum(0, [variant("Sq", ser=["[x]"], aci=1), variant("Cu", ser=["{ab}"], aci=1), variant("At", ser=["a@b_c"]), variant("Snake", ser=["snake_case-1"], aci=1)], aci=False))
    base.append(enum(0, []))
    # field-less enums may still have (const) generic parameters
    base.append(enum(0, [variant("A"), variant("B", ser=["b", "bee"]), variant("C", aci=1)], generics="const"))
    base.append(enum(0, [variant("Only")], generics="constdef"))
    # variants named like items of the standard prelude, glob-imported into the scope of the derive (`pub use self::E::*;`, which
    # takes precedence over the prelude there): what the generated code mentions must still mean what it meant
    base.append(enum(0, [variant("None"), variant("Some"), variant("All", ser=["all", "every"])], glob=True))
    base.append(enum(0, [variant("Ok", aci=1), variant("Err"), variant("Option"), variant("Result", dis=True)], glob=True))
    base.append(enum(0, [variant("Some", ser=["some"]), variant("Default"), variant("Clone"), variant("Other", "tuple", [field("String")], default=True)], glob=True))
    # the inner value of the catch-all only has to be From<&str> (and Clone for the table): Rc<str> is neither Send nor Sync
    base.append(enum(0, [variant("Red"), variant("Blue", ser=["b", "blue"], aci=1), variant("Other", "tuple", [field("rcstr")], default=True)]))
    base.append(enum(0, [variant("Other", "named", [field("rcstr", "text")], default=True), variant("Red")]))
    # an enum NAMED like an item the generated lookup mentions
    base.append(enum(0, [variant("Hash"), variant("Tree", ser=["t", "tree"], aci=1), variant("Off", dis=True)], fixed_name="Map"))
    base.append(enum(0, [variant("Get"), variant("Entry")], fixed_name="PHF"))
    for E in SC.dictionary(1):
        base.append(fieldless(copy.deepcopy(E)))
    nfixed = len(base)
    for k in range(n):
        base.append(fieldless(SC.sample_def(rng, 0, nmax=6, perr=False)))
    cands, did = [], 1
    for bi, E in enumerate(base):
        if bi == nfixed:
            did = max(did, 2001)      # the ids of the sampled definitions do not depend on how many hand-written ones precede them
        for phf in (False, True):
            E2 = copy.deepcopy(E)
            E2["id"], E2["name"], E2["phf"], E2["perr"] = did, E.get("fixed_name") or ("E%d" % did), phf, False
            E2["namecp"] = core.cp(E2["name"])
            if phf:
                E2["twin_of"] = did - 1
            cands.append(E2)
            did += 1
    return cands


def key(E, facts, text):
    from ..core import uncp
    # classifier used by known_findings: a case-insensitive variant with a spelling equal to its own
    # ASCII-lower or ASCII-upper form (all-lower, all-upper or caseless) under use_phf
    dup = False
    if E and facts:
        for i, v in enumerate(E["variants"]):
            if v["dis"] or v["def"]:
                continue
            sps = [uncp(s) for s in facts["sp"][i]]
            if facts["aci"][i] and any(s == s.lower() or s == s.upper() for s in sps):
                dup = True
            if len(set(sps)) < len(sps):
                dup = True
    return dict(phf=bool(E and E["phf"]), phf_dup_key_shape=dup, const_generic=bool(E and E["generics"] in ("const", "constdef")))


def module(E):
    from .. import strgen as SG
    src = SG.parse_module(E)
    import re
    decl = D.print_enum(E, ["EnumString"])
    camel = all(re.match(r"^[A-Z][A-Za-z0-9]*$", core.uncp(v["id"])) for v in E["variants"])
    if E.get("glob"):
        # the enum lives in a module of its own that glob-imports its variants; the drivers outside only see the type
        assert decl in src
        inner = "\n".join("    " + l for l in decl.splitlines())
        src = src.replace(decl, "mod glob_scope {\n%s\n    #[allow(unused_imports)]\n    pub use self::%s::*;\n}\npub use glob_scope::%s;"
                          % (inner, E["name"], E["name"]))
    elif camel and E["id"] % 3 != 1 and decl in src and not E.get("via_macro"):
        # a scope that denies naming-style lints (as `#![deny(warnings)]` crates do): what the derive generates for a well-named enum
        # must not trip them - with use_phf no more than without
        inner = "\n".join("    " + l for l in decl.splitlines())
        src = src.replace(decl, "mod strict_scope {\n    #![deny(nonstandard_style)]\n%s\n}\npub use strict_scope::%s;" % (inner, E["name"]))
    # the same scope holds another use_phf enum and user items called PHF / phf: generated statics must not collide
    src += ("#[derive(Debug, Clone, PartialEq, strum::EnumString)]\n#[strum(use_phf)]\npub enum Sibling%d { Left, #[strum(serialize = \"r\")] Right }\n"
            "pub const PHF: u8 = 1;\npub fn phf() -> u8 { PHF }\n" % E["id"])
    return src


DIRECT = r'''#![allow(warnings)]
// the first set-up the README documents: the derives come from strum_macros itself, strum (here with its `phf` feature, WITHOUT `derive`)
// supplies the traits and the support code the generated parser refers to
use std::str::FromStr;
#[derive(Debug, Clone, PartialEq, strum_macros::EnumString)]
#[strum(use_phf)]
enum WithMap { Red, #[strum(serialize = "b", serialize = "blue", ascii_case_insensitive)] Blue, #[strum(disabled)] Off, #[strum(default)] Other(String) }
#[derive(Debug, Clone, PartialEq, strum_macros::EnumString)]
enum Plain { Red, #[strum(serialize = "b", serialize = "blue", ascii_case_insensitive)] Blue, #[strum(disabled)] Off, #[strum(default)] Other(String) }
#[derive(Debug, Clone, PartialEq, strum_macros::EnumString)]
#[strum(use_phf)]
enum NoCatchAll { One, Two }
fn main() {
    for s in ["Red", "red", "b", "B", "BLUE", "bLuE", "Off", "", "zz"] {
        let a = match WithMap::from_str(s) { Ok(WithMap::Red) => 1, Ok(WithMap::Blue) => 2, Ok(WithMap::Off) => 3, Ok(WithMap::Other(t)) => 4 + t.len(), Err(_) => 0 };
        let b = match Plain::from_str(s) { Ok(Plain::Red) => 1, Ok(Plain::Blue) => 2, Ok(Plain::Off) => 3, Ok(Plain::Other(t)) => 4 + t.len(), Err(_) => 0 };
        if a != b { println!("DIFF {:?} {} {}", s, a, b); }
    }
    if NoCatchAll::from_str("Two") != Ok(NoCatchAll::Two) || NoCatchAll::from_str("two").is_ok() { println!("DIFF NoCatchAll"); }
    println!("DONE");
}
'''


def direct_config(rep):
    """use_phf must also be a pure optimisation where the derives are taken from strum_macros directly (strum built with `phf` only)"""
    pipe.write_crate("c16direct", {"main.rs": DIRECT}, strum_features=("phf",),
                     extra_deps='strum_macros = { path = "%s/strum_macros" }\n' % core.REPO)
    ok, diags, stderr, exe = core.cargo_build("c16direct")
    if not ok:
        msgs = [d.get("message", "") for d in diags if d.get("level") == "error"]
        rep.violation(dict(kind="compile_error", phf=True, config="strum_macros_direct", const_generic=False),
                      "a use_phf enum does not compile where the derives come from strum_macros directly (strum with the phf feature, without derive): "
                      + "; ".join(msgs)[:300], dict(definition=dict(id=0), errors=msgs, files={"main.rs": DIRECT}))
        return
    rc, out, err = core.run_bin(exe["c16direct"], [])
    if rc != 0 or "DIFF" in out or "DONE" not in out:
        rep.violation(dict(kind="parse_mismatch", phf=True, config="strum_macros_direct", const_generic=False),
                      "the phf-backed parser differs from the plain one (derives from strum_macros directly): " + (out + err)[-300:],
                      dict(definition=dict(id=0), output=out, files={"main.rs": DIRECT}))
    rep.cov["direct_config"] = "strum (features: phf) + strum_macros used directly: 3 enums, 9 inputs compared with the plain twin"


def run(tier, seed, rep):
    sz = SIZES[tier]
    rng = random.Random(seed * 86028121 + 17)
    r = PC.run_parse_check(PROP, "c16", rep, candidates(rng, sz["sample"]), rng, seed, sz["cap"], sz["flips"],
                           lambda: model(tier), features=("derive", "phf"), mismatch_key=key, module_fn=module,
                           in_domain=lambda f: f["wf"] and (f["no"] or f["pc"]),
                           what="phf-backed parser differs from the plain one (ParseSpec)")
    direct_config(rep)
    twins = sum(1 for E in r["defs"] if E.get("twin_of") in r["by_id"])
    rep.cov["twin_pairs"] = twins
    rep.cov["rule"] = ("field-less definitions (unit variants + optional default catch-all) of C01's domain, each built with and without "
                       "use_phf (strum/phf feature, phf 0.11.3 from the offline registry); both twins receive the same C01/C12 inputs and "
                       "both are validated against the same ParseSpec, so equal results follow; a twin that does not compile is reported; "
                       "distinct = (definition, input)")
    rep.assumptions += ["phf_macros is the judge of 'compiles with use_phf'", "rustc/cargo and the 1:1 definition printer are trusted"]
    return rep
