"""C16 - use_phf is a pure optimisation of EnumString."""
import random, copy
from .. import core, parsecheck as PC, strcorpus as SC
from ..defs import variant, enum, field

PROP = "C16"
SIZES = dict(quick=dict(sample=200, cap=160, flips=6), thorough=dict(sample=3000, cap=1500, flips=10))
SPELL = ["Blue", "blue", "BLUE", "bLuE", "12", "-", "", "été", "ÉTÉ", "K", "k", "a b", "x_Y", "ß", "Ab1", "7up", "#"]


def model(tier):
    cfg = core.workdir("mc_" + PROP) + "/MC_FromStr.cfg"
    consts = dict(Size=1 if tier == "quick" else 2, Dedup=True, Overlap=True)
    core.write_cfg(cfg, constants=consts, invariants=["PhfCompiles", "ExpansionIsSpec", "NeverDisabled"])
    res = core.tlc_mc("MC_FromStr.tla", cfg, "mc_" + PROP, workers=6, timeout=7200, xmx="12g")
    for a in ("PushKeys", "PushArms", "TakeDefault", "SkipDisabled"):
        if res["coverage"].get(a, 0) == 0:
            raise core.ToolError("vacuity: action %s of MC_FromStr never taken" % a)
    return ("MC_FromStr", res, consts)


def fieldless(E):
    """unit variants only, except the default catch-all (which never enters the map)"""
    for k, v in enumerate(E["variants"]):
        if not v["def"]:
            # field-less: a unit variant, or an empty field list `V()` / `V {}` where the sampled variant had fields
            kind = v["kind"] if (v["kind"] != "unit" and (k + len(E["variants"])) % 2) else "unit"
            v["kind"], v["fields"], v["nf"], v["dwith"] = kind, [], 0, ""
    E["generics"] = "none"
    E["variants"] = [v for v in E["variants"] if not uncarrier(v)]
    return E


def uncarrier(v):
    from ..core import uncp
    return uncp(v["id"]).startswith("Carrier")


def candidates(rng, n):
    base = []
    # every spelling class x case-insensitivity at enum and variant level, next to a plain and a disabled variant
    for eaci in (False, True):
        for vaci in (2, 1, 0):
            for sp in SPELL:
                base.append(enum(0, [variant("Target", ser=[sp], aci=vaci), variant("Plain"),
                                     variant("Off", dis=True, ser=["off"]), variant("Two", ser=["two", "TWO"], ts="Two", aci=vaci)],
                                 aci=eaci))
    base.append(enum(0, [variant("Known", ser=["known"], aci=1), variant("Other", "tuple", [field("String")], default=True)]))
    base.append(enum(0, [variant("Red"), variant("Blue", ser=["b", "blue"]), variant("Other", "tuple", [field("String")], default=True)]))
    base.append(enum(0, [variant("Other", "named", [field("String", "text")], default=True), variant("Red")], style="snake_case"))
    base.append(enum(0, [variant("Same", ser=["same"], ts="same")]))            # the same literal twice on one variant
    # overlapping spellings on which first-match-wins is still well defined for both parsers (PhfConsistent)
    base.append(enum(0, [variant("LegacyGet", ser=["get"]), variant("Get", aci=1), variant("Put", ser=["put", "PUT"])]))
    base.append(enum(0, [variant("Head", aci=0, ser=["head"]), variant("HEAD"), variant("Tail")], aci=True))
    base.append(enum(0, [variant("A", ser=["x"], aci=1), variant("B", ser=["X"], aci=1), variant("C", ser=["x"])]))
    base.append(enum(0, [variant("Mon"), variant("Tue"), variant("Off1", dis=True), variant("Off2", dis=True), variant("Off3", dis=True),
                         variant("Same", ser=["Mon2"]), variant("Other", "tuple", [field("String")], default=True)]))
    base.append(enum(0, [variant("Mon"), variant("Tue"), variant("Off1", dis=True), variant("Off2", dis=True), variant("Wed"), variant("Thu", dis=True)]))
    base.append(enum(0, [variant("Loose", ser=["Red"], aci=1), variant("Get", ser=["get"], aci=0), variant("Longest", ser=["Crimson"], aci=1), variant("Plain")]))
    base.append(enum(0, []))
    # field-less enums may still have (const) generic parameters
    base.append(enum(0, [variant("A"), variant("B", ser=["b", "bee"]), variant("C", aci=1)], generics="const"))
    base.append(enum(0, [variant("Only")], generics="constdef"))
    for E in SC.dictionary(1):
        base.append(fieldless(copy.deepcopy(E)))
    for k in range(n):
        base.append(fieldless(SC.sample_def(rng, 0, nmax=6, perr=False)))
    cands, did = [], 1
    for E in base:
        for phf in (False, True):
            E2 = copy.deepcopy(E)
            E2["id"], E2["name"], E2["phf"], E2["perr"] = did, "E%d" % did, phf, False
            if phf:
                E2["twin_of"] = did - 1
            cands.append(E2)
            did += 1
    return cands


def key(E, facts, text):
    from ..core import uncp
    # classifier used by known_findings: a case-insensitive variant with a spelling equal to its own
    # ASCII-lower or ASCII-upper form (all-lower, all-upper or caseless) under use_phf
    dup = False
    if E and facts:
        for i, v in enumerate(E["variants"]):
            if v["dis"] or v["def"]:
                continue
            sps = [uncp(s) for s in facts["sp"][i]]
            if facts["aci"][i] and any(s == s.lower() or s == s.upper() for s in sps):
                dup = True
            if len(set(sps)) < len(sps):
                dup = True
    return dict(phf=bool(E and E["phf"]), phf_dup_key_shape=dup, const_generic=bool(E and E["generics"] in ("const", "constdef")))


def module(E):
    from .. import strgen as SG
    src = SG.parse_module(E)
    # the same scope holds another use_phf enum and user items called PHF / phf: generated statics must not collide
    src += ("#[derive(Debug, Clone, PartialEq, strum::EnumString)]\n#[strum(use_phf)]\npub enum Sibling%d { Left, #[strum(serialize = \"r\")] Right }\n"
            "pub const PHF: u8 = 1;\npub fn phf() -> u8 { PHF }\n" % E["id"])
    return src


def run(tier, seed, rep):
    sz = SIZES[tier]
    rng = random.Random(seed * 86028121 + 17)
    r = PC.run_parse_check(PROP, "c16", rep, candidates(rng, sz["sample"]), rng, seed, sz["cap"], sz["flips"],
                           lambda: model(tier), features=("derive", "phf"), mismatch_key=key, module_fn=module,
                           in_domain=lambda f: f["wf"] and (f["no"] or f["pc"]),
                           what="phf-backed parser differs from the plain one (ParseSpec)")
    twins = sum(1 for E in r["defs"] if E.get("twin_of") in r["by_id"])
    rep.cov["twin_pairs"] = twins
    rep.cov["rule"] = ("field-less definitions (unit variants + optional default catch-all) of C01's domain, each built with and without "
                       "use_phf (strum/phf feature, phf 0.11.3 from the offline registry); both twins receive the same C01/C12 inputs and "
                       "both are validated against the same ParseSpec, so equal results follow; a twin that does not compile is reported; "
                       "distinct = (definition, input)")
    rep.assumptions += ["phf_macros is the judge of 'compiles with use_phf'", "rustc/cargo and the 1:1 definition printer are trusted"]
    return rep
