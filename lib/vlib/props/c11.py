"""C11 - default and transparent variants capture and forward their inner value verbatim."""
import random
from .. import core, parsecheck as PC, strcorpus as SC, strgen as SG
from ..defs import variant, enum, field

PROP = "C11"
SIZES = dict(quick=dict(sample=120, cap=140, flips=4, grid="quick"), thorough=dict(sample=2000, cap=1200, flips=8, grid="thorough"))
# inner types of transparent variants: (field type key, AsRef<str> available, Into<&'static str> available)
TRANSP = [("String", True, False), ("sstr", True, True), ("i32", False, False), ("u8", False, False), ("i64", False, False),
          ("char", False, False), ("bool", False, False), ("boxstr", True, False), ("trickystr", True, False), ("trickystr", True, False)]
DEFAULT_INNER = ["String", "boxstr", "trickystr"]


def model(tier):
    cfg = core.workdir("mc_" + PROP) + "/MC_FromStr.cfg"
    consts = dict(Size=1 if tier == "quick" else 2, Dedup=True, Overlap=False)
    core.write_cfg(cfg, constants=consts, invariants=["NeverDisabled", "ExpansionIsSpec"])
    res = core.tlc_mc("MC_FromStr.tla", cfg, "mc_" + PROP, workers=6, timeout=7200, xmx="12g")
    if res["coverage"].get("TakeDefault", 0) == 0:
        raise core.ToolError("vacuity: TakeDefault never taken")
    return ("MC_FromStr", res, consts)


def candidates(rng, n):
    cands, did = [], 1
    lits = ["blue", "b", "Red", "light blue", "été", "K", ""]
    for k in range(n):
        vs = []
        nplain = rng.randint(0, 3)
        for j in range(nplain):
            vs.append(SC.rand_variant(rng, ["Red", "Green", "Blue"][j], "none", lits=lits))
        asref = rng.random() < 0.5
        into = rng.random() < 0.3
        # default variant: tuple or single named field
        if rng.random() < 0.75:
            named = rng.random() < 0.4
            ty = rng.choice(DEFAULT_INNER)
            dv = variant("Other", "named" if named else "tuple", [field(ty, rng.choice(SC.FIELD_NAMES) if named else "")], default=True)
            r = rng.random()
            if r < 0.15:
                dv["ts"] = [core.cp("fallback")]            # default WITH to_string: prints the literal, not the inner value
            elif r < 0.4:
                dv["ser"] = [core.cp("ident"), core.cp("id")][: rng.choice([1, 2])]    # serialize only: still forwards to the inner value
            if ty == "String" and not named and rng.random() < 0.25:
                dv["dwith"] = "dw_string"              # default_with on the catch-all: the captured input is what it holds
            vs.insert(rng.randint(0, len(vs)), dv)
        # transparent variants
        for j in range(rng.choice([0, 1, 1, 2])):
            opts = [t for t in TRANSP if (t[1] or not asref) and (t[2] or not into)]
            ty = rng.choice(opts)[0]
            named = rng.random() < 0.4
            tv = variant(["Wrap", "Wrap2"][j], "named" if named else "tuple", [field(ty, rng.choice(SC.FIELD_NAMES) if named else "")], transp=True)
            if rng.random() < 0.25:
                tv["ts"] = [core.cp("shown%d" % j)]      # to_string next to `transparent`: printing still forwards the inner value
            if rng.random() < 0.3:
                tv["ser"] = [core.cp("tr%d" % j)]        # a spelling for EnumString next to `transparent`: printing still forwards the inner value
            vs.insert(rng.randint(0, len(vs)), tv)
        # a nested derived enum as inner value of a transparent variant is covered by the dictionary below
        E = enum(did, vs, aci=rng.random() < 0.3, style=rng.choice(["none", "none", "snake_case", "UPPERCASE"]), split=rng.randrange(2),
                 prefix=rng.choice([None, None, "p/", "\u00e9:"]),       # a prefix belongs to names, never to a forwarded inner value
                 perr=rng.random() < 0.3)                                 # a custom error next to a catch-all: the catch-all still wins
        E["fwd_asref"], E["fwd_into"] = asref, into
        cands.append(E)
        did += 1
    # an inner value that is the enum itself (behind Box / Rc): a nested derived enum whose Display is the one being generated
    for wrap, ty in (("Box", "boxself"), ("Box", "boxself")):
        tv = variant("Paren", "tuple" if did % 2 else "named", [field(ty, "" if did % 2 else "inner")], transp=True)
        E = enum(did, [variant("Lit", ser=["lit"]), tv, variant("Neg", "tuple", [field(ty)], transp=True, ser=["neg"])], name="Expr%d" % did)
        n = E["name"]
        tv["inner_vals"] = ["Box::new(%s::Lit)" % n, "Box::new(%s::Neg(Box::new(%s::Lit)))" % (n, n)]
        E["variants"][2]["inner_vals"] = ["Box::new(%s::Lit)" % n, "Box::new(%s::Lit)" % n]
        E["extra_items"] = "impl ::core::default::Default for %s { fn default() -> Self { %s::Lit } }\n" % (n, n)
        E["fwd_asref"], E["fwd_into"] = False, False
        cands.append(E)
        did += 1
    return cands


def module(E):
    return SG.forward_module(E, with_parse=True)


def run(tier, seed, rep):
    sz = SIZES[tier]
    rng = random.Random(seed * 141650939 + 23)
    import os
    os.environ["VERIF_GRID"] = sz["grid"]
    r = PC.run_parse_check(PROP, "c11", rep, candidates(rng, sz["sample"]), rng, seed, sz["cap"], sz["flips"],
                           lambda: model(tier), module_fn=module, what="default/transparent variant does not forward verbatim",
                           in_domain=lambda f: f["wf"] and f["no"] and f["wfn"] and f["bf"])
    fw = [e for e in r["events"] if e["op"] == "fwd"]
    cr = [e for e in r["events"] if e["op"] == "caprt"]
    rep.cov["evaluations"] += sum(len(e["outer"]) for e in fw) + sum(len(e["ins"]) for e in cr)
    rep.cov["forward_events"] = len(fw)
    rep.cov["captured_roundtrips"] = sum(1 for e in cr for t in e["ts"] if t)
    import os as _os
    if (not fw or not rep.cov["captured_roundtrips"]) and not _os.environ.get("VERIF_REPLAY"):
        raise core.ToolError("vacuity: no forwarding / capture events were produced")
    rep.cov["rule"] = ("definitions with a default and/or transparent variant (tuple and single-named-field form; inner String, Box<str>, "
                       "&'static str, integers, char, bool) among ordinary variants; inputs = C01's input set, TLC (ParseSpec) decides which "
                       "are captured; events: parse (captured string), from_str(s).to_string(), outer vs inner rendering under the spec "
                       "grid + sign/zero/alternate flags, AsRef/Into of transparent variants next to the inner value's own result")
    rep.assumptions += ["rustc/cargo and the 1:1 definition printer are trusted"]
    return rep
