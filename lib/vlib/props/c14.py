"""C14 - EnumMessage returns exactly the per-variant message, detail, docs and spellings."""
import random
from concurrent.futures import ThreadPoolExecutor
from .. import core, pipe, metagen as MG
from .c03 import report_compile_failures

from ..core import COMMON_DIMENSIONS
PROP = "C14"
SIZES = dict(quick=dict(sample=250, mcV=2), thorough=dict(sample=4000, mcV=3))


def canary(grp):
    for e in grp:
        if e.get("op") == "msg":
            e["sers"] = e["sers"] + [[120]]
            return True
    return False


def model(tier):
    cfg = core.workdir("mc_" + PROP) + "/MC_Meta.cfg"
    consts = dict(MaxV=SIZES[tier]["mcV"])
    core.write_cfg(cfg, constants=consts, invariants=["MessageArms", "DetailArms", "DocArms", "MatchesCompile"])
    res = core.tlc_mc("MC_Meta.tla", cfg, "mc_" + PROP, workers=6, timeout=7200, xmx="12g")
    for a in ("SkipDisabled", "PushArms", "Finish"):
        if res["coverage"].get(a, 0) == 0:
            raise core.ToolError("vacuity: action %s never taken" % a)
    return ("MC_Meta", res, consts)


def run(tier, seed, rep):
    sz = SIZES[tier]
    rng = random.Random(seed * 613651349 + 53)
    with ThreadPoolExecutor(max_workers=1) as ex:
        mc = ex.submit(model, tier)
        defs = [MG.msg_special(k + 1, k) for k in range(MG.MSG_SPECIALS)]
        defs += [MG.msg_def(rng, len(defs) + k + 1) for k in range(sz["sample"])]
        by_id = {E["id"]: E for E in defs}
        files = {E["id"]: MG.msg_module(E) for E in defs}
        exe, failed = pipe.build_corpus("c14", files)
        report_compile_failures(rep, failed, by_id, files, "EnumMessage")
        evs = pipe.run_driver(exe, PROP, {}, seed)
        groups = pipe.group_by_def(by_id, evs)
        mism = pipe.validate_groups("Trace_Meta", groups, PROP, rep, shard_bytes=1_500_000, canary=canary)
        for ev, d, text in mism:
            rep.violation(dict(kind="message_mismatch"), "EnumMessage differs from the specification: " + text[:400],
                          dict(definition=d, event=ev, tlc=text, files={"def.rs": files.get(d["id"], "") if d else ""}))
        name, res, consts = mc.result()
        rep.add_model(name, res, consts)
    evs = [e for e in evs if e.get("op") != "panic"]      # PANIC_FILTER: statistics only (panic events were judged by TLC above)
    rep.cov["programs"] = len(defs) - len(failed)
    rep.cov["evaluations"] = 4 * len(evs)
    rep.cov["distinct_nontrivial"] = len({(e["def"], e["i"]) for e in evs if e["op"] == "msg" and (e["message"] or e["detail"] or e["doc"])})
    rep.cov["rule"] = ("enums of 1..5 variants x kinds x message/detailed_message presence x 0..4 doc lines (0-3 leading spaces, empty lines, "
                       "quotes, backslashes, braces, non-ASCII) x serialize/to_string x serialize_all x prefix x disabled; all four getters on one "
                       "value (non-default payload) per variant, disabled ones included; distinct_nontrivial = (definition, variant) pairs with "
                       "at least one of message/detail/doc present")
    rep.cov["rule"] += ' + one doc attribute holding newlines; #[doc(hidden)] / #[doc(alias)] among the doc lines; case-only spellings on case-insensitive variants'
    rep.cov["rule"] += COMMON_DIMENSIONS
    rep.cov["samples"] = [dict(def_=e["def"], variant=e["i"], doc=[core.uncp(x) for x in e["doc"]], message=[core.uncp(x) for x in e["message"]]) for e in evs[:40] if e["op"] == "msg" and e["doc"]][:4]
    rep.assumptions += ["doc comments are written as #[doc = \"..\"] attributes (what /// desugars to)"]
    return rep
