"""C03 - all string-producing derives agree on one canonical name per variant."""
import random
from concurrent.futures import ThreadPoolExecutor
from .. import core, pipe, strcorpus as SC, strgen as SG, defs as D
from ..core import uncp

PROP = "C03"
SIZES = dict(quick=dict(sample=350, exh=1), thorough=dict(sample=5000, exh=1))


def canary(grp):
    for e in grp:
        if e.get("op") == "names":
            e["outs"][-1]["s"] = e["outs"][-1]["s"] + [33]
            return True
    return False


def model(tier):
    cfgdir = core.workdir("mc_" + PROP)
    cfg = cfgdir + "/MC_Names.cfg"
    consts = dict(Size=1 if tier == "quick" else 2)
    core.write_cfg(cfg, constants=consts, invariants=["DerivesAgree", "CanonicalIsSpelling", "LastVsLongest", "PrefixOnlyOnPrinting"])
    res = core.tlc_mc("MC_Names.tla", cfg, "mc_" + PROP, workers=6, timeout=7200, xmx="10g")
    for a in ("PickToString", "PickSerialize", "PickIdent", "AddPrefix", "EmitArm"):
        if res["coverage"].get(a, 0) == 0:
            raise core.ToolError("vacuity: action %s of MC_Names never taken" % a)
    return ("MC_Names", res, consts)


def dep_ok(E):
    """the deprecated ToString derive only documents tuple-form default variants"""
    return not any(v["def"] and (v["kind"] != "tuple" or v["fields"][0]["ty"] != "String") for v in E["variants"])


def in_domain(f):
    return f["wfn"] and f["dwf"] and f["iswf"] and not any(f["interp"])


def run(tier, seed, rep):
    sz = SIZES[tier]
    rng = random.Random(seed * 104729 + 3)
    with ThreadPoolExecutor(max_workers=1) as ex:
        mc = ex.submit(model, tier)
        cands = SC.names_exhaustive(1)
        n0 = len(cands) + 1
        from ..defs import variant, enum
        cands.append(enum(n0, [variant("Kb"), variant("KB"), variant("Mb")], style="lowercase")); n0 += 1
        # a name that starts with the prefix still gets the prefix; escaped braces without a placeholder are part of the name
        cands.append(enum(n0, [variant("Red"), variant("Apple", ts="Refresh"), variant("Blue", ser=["Re", "Re/blue"])], prefix="Re")); n0 += 1
        cands.append(enum(n0, [variant("Apple"), variant("Avocado", "tuple", [D.field("u8")])], prefix="a", style="lowercase")); n0 += 1
        cands.append(enum(n0, [variant("Set", "named", [D.field("u8", "members")], ts="set{{}}"), variant("Unit", ts="{{x}}"),
                               variant("Tup", "tuple", [D.field("u8")], ser=["a", "}}b{{"])], prefix="p")); n0 += 1
        cands.append(enum(n0, [variant("Low"), variant("Medium", ser=["High"]), variant("High"), variant("Nowhere", dis=True), variant("Max")], prefix="dir:", style="kebab-case")); n0 += 1
        cands += [SC.names_def(rng, n0 + k) for k in range(sz["sample"])]
        facts = pipe.domain_pass(cands, PROP)
        defs = [E for E in cands if in_domain(facts[E["id"]])]
        core.log("[C03] %d candidates, %d in the documented domain" % (len(cands), len(defs)))
        by_id = {E["id"]: E for E in defs}
        files = {E["id"]: SG.names_module(E, dep=dep_ok(E)) for E in defs}
        exe, failed = pipe.build_corpus("c03", files)
        report_compile_failures(rep, failed, by_id, files, "string-producing derives")
        ok_ids = [i for i in by_id if i not in failed]
        evs = pipe.run_driver(exe, PROP, {}, seed)
        groups = pipe.group_by_def(by_id, evs)
        mism = pipe.validate_groups("Trace_Str", groups, PROP, rep, shard_bytes=1_500_000, canary=canary)
        for ev, d, text in mism:
            rep.violation(dict(kind="name_mismatch", op=ev["op"]), "a derive does not return the canonical name: " + text[:300],
                          dict(definition=d, event=ev, tlc=text, files={"def.rs": files.get(d["id"], "") if d else ""}))
        name, res, consts = mc.result()
        rep.add_model(name, res, consts)
    evs = [e for e in evs if e.get("op") != "panic"]      # PANIC_FILTER: statistics only (panic events were judged by TLC above)
    nm = [e for e in evs if e["op"] == "names"]
    rep.cov["programs"] = len(ok_ids)
    rep.cov["evaluations"] = sum(len(e["outs"]) for e in nm) + sum(len(e["names"]) for e in evs if e["op"] == "vnames")
    rep.cov["distinct_nontrivial"] = len({(e["def"], e["i"]) for e in nm})
    rep.cov["rule"] = ("definitions = per-variant exhaustive grid (every order of 1..3 serialize literals of distinct lengths x "
                       "to_string x prefix x kind x style) + seeded samples, filtered by NamesWF/BraceFree in the "
                       "specification; one value (non-default payload) per enabled fixed-name variant is passed through "
                       "Display, to_string, AsRef, From (value, ref), into_str, ToString, AsStaticRef and VariantNames; "
                       "distinct_nontrivial = distinct (definition, variant) pairs observed")
    rep.cov["samples"] = [dict(definition=by_id[e["def"]]["id"], variant=e["i"], outs={o["k"]: uncp(o["s"]) for o in e["outs"]},
                               prefix=[uncp(x) for x in by_id[e["def"]]["prefix"]]) for e in nm[:5]]
    rep.assumptions += ["rustc/cargo and the 1:1 definition printer are trusted",
                        "serialize literals with equal byte length, or whose byte and character length orders disagree, are outside the domain"]
    return rep


def report_compile_failures(rep, failed, by_id, files, what):
    for did, msgs in failed.items():
        E = by_id[did]
        rep.violation(dict(kind="compile_error", msg=classify(msgs)),
                      "in-domain definition does not compile (%s): %s" % (what, msgs[0][:200]),
                      dict(definition=E, errors=msgs, files={"def.rs": files[did]}))


def classify(msgs):
    m = msgs[0]
    import re
    m = re.sub(r"`[^`]*`", "`_`", m)
    return m[:80]
