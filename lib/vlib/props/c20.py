"""C20 - unsupported input gets a compile error, never a macro panic or silent acceptance."""
import json, os, random
from concurrent.futures import ThreadPoolExecutor
from .. import core, pipe

PROP = "C20"
PRELUDE = ("#![allow(warnings)]\n#[derive(Debug)] pub struct MyErr;\npub fn my_fn(_s: &str) -> MyErr { MyErr }\n"
           "pub fn dw() -> u8 { 1 }\npub fn dws() -> String { String::new() }\n")
STD = {"EnumString": "Debug, Clone, PartialEq", "EnumTable": "Debug, Clone, Copy, PartialEq", "VariantArray": "Debug, PartialEq"}


def dump_instances():
    wd = core.workdir("inst_" + PROP)
    out = os.path.join(wd, "instances.ndjson")
    cfg = os.path.join(wd, "e.cfg")
    open(cfg, "w").write("")
    o = core.tlc_eval("DumpReject.tla", cfg, "inst_" + PROP, env=dict(OUT=out))
    if not os.path.exists(out):
        raise core.ToolError("could not dump the instance list:\n" + o[-2000:])
    return [json.loads(l) for l in open(out)]


def enum_kw_text(k, n=1):
    return {"serialize_all": 'serialize_all = "snake_case"', "ascii_case_insensitive": "ascii_case_insensitive", "use_phf": "use_phf",
            "prefix": 'prefix = "p"', "parse_err_ty": "parse_err_ty = MyErr", "parse_err_fn": "parse_err_fn = my_fn",
            "const_into_str": "const_into_str", "crate": 'crate = "strum"', "name": "name(Kind%d)" % n, "vis": "vis(pub)"}[k]


def variant_kw_text(k):
    return {"message": 'message = "m"', "detailed_message": 'detailed_message = "d"', "to_string": 'to_string = "t"', "transparent": "transparent",
            "disabled": "disabled", "default": "default", "default_with": 'default_with = "dw"', "ascii_case_insensitive": "ascii_case_insensitive"}[k]


def attr_lines(name, items, split, indent=""):
    if split:
        return ["%s#[%s(%s)]" % (indent, name, i) for i in items]
    return ["%s#[%s(%s)]" % (indent, name, ", ".join(items))]


def program(x):
    """-> (source, item line range, offending variant line range or item range)"""
    rule, d, kw, shape, pos, split = x["rule"], x["derive"], x["kw"], x["shape"], x["pos"], x["split"]
    ctx = x.get("ctx", "plain")
    lines = PRELUDE.splitlines()
    derive_line = "#[derive(%sstrum::%s)]" % ((STD.get(d, "Debug") + ", "), d)
    enum_attrs, head, generics = [], "pub enum E", ""
    # neighbours: valid variants for the derive
    fieldless = d in ("VariantArray", "EnumTable")
    ok_variants = [["    Ok1,"], ["    Ok2,"]]
    bad = None          # lines of the offending variant (None: the offence is at enum level)
    extra_ok = []
    if rule == "non_enum":
        body = {"struct": "pub struct E { a: u8, b: u8 }", "tuple_struct": "pub struct E(u8, u8);", "unit_struct": "pub struct E;",
                "union": "pub union E { a: u8, b: u32 }"}[shape]
        item = [derive_line.replace("Debug, Clone, Copy, PartialEq, ", "").replace("Debug, Clone, PartialEq, ", "").replace("Debug, PartialEq, ", "").replace("Debug, ", ""), body]
        start = len(lines) + 1
        lines += item
        return "\n".join(lines) + "\n", [start, len(lines)], [start, len(lines)]
    if rule == "data_variant":
        body = {"tuple": "    Bad(u8),", "named": "    Bad { x: u8 },", "tuple0": "    Bad(),"}[shape.replace("_disabled", "")]
        bad = (["    #[strum(disabled)]"] if shape.endswith("_disabled") else []) + [body]
    elif rule == "lifetime":
        generics = "<'a>" if shape == "lt" else "<'a, T: Default + Clone + PartialEq + ::core::fmt::Debug + 'a>"
        if shape == "lt_only_disabled":
            generics = "<'a>"
            if d == "EnumTable":
                ok_variants = [["    Ok1,"], ["    Ok2,"]]
            else:
                extra_ok = [["    #[strum(disabled)]", "    Life(&'a str),"]]      # the lifetime is used by a disabled variant only
        elif fieldless or d == "EnumTable":
            ok_variants = [["    Ok1,"], ["    Ok2,"]]
        else:
            extra_ok = [["    Life(&'a str),"]] + ([["    Ty(Option<&'a T>),"]] if shape == "lt_ty" else [])
        derive_line = derive_line.replace("Debug, Clone, Copy, PartialEq, ", "").replace("Debug, ", "")
    elif rule == "dup_enum_kw":
        if kw in ("name", "vis"):
            enum_attrs = attr_lines("strum_discriminants", [enum_kw_text(kw, 1), enum_kw_text(kw, 2)], split)
        else:
            items = [enum_kw_text(kw), enum_kw_text(kw)]
            if kw == "parse_err_ty":
                items.append(enum_kw_text("parse_err_fn"))
            if kw == "parse_err_fn":
                items.append(enum_kw_text("parse_err_ty"))
            enum_attrs = attr_lines("strum", items, split)
    elif rule == "dup_variant_kw":
        field = {"default": "String", "default_with": "u8", "transparent": "&'static str"}.get(kw, "u8")
        body = "    Bad," if shape == "unit" else "    Bad(%s)," % field
        bad = attr_lines("strum", [variant_kw_text(kw), variant_kw_text(kw)], split, "    ") + [body]
    elif rule == "dup_field_kw":
        fa = "#[strum(default_with = \"dw\", default_with = \"dw\")]" if not split else "#[strum(default_with = \"dw\")] #[strum(default_with = \"dw\")]"
        bad = ["    Bad { %s x: u8 }," % fa]
    elif rule == "two_defaults":
        named1 = shape in ("named_first", "both_named")
        named2 = shape in ("named_second", "both_named")
        bad = ["    #[strum(default)]", "    Bad { text: String }," if named2 else "    Bad(String),"]
        first = [["    #[strum(default)]", "    First { text: String }," if named1 else "    First(String),"]]
        ok_variants = first + (ok_variants if shape != "adjacent" else [])
        pos = "last"
    elif rule in ("default_arity", "transparent_arity"):
        base = shape.replace("_ts", "").replace("_ser", "")
        body = {"unit": "    Bad,", "tuple2": "    Bad(String, String),", "named2": "    Bad { a: String, b: String },", "tuple0": "    Bad(),"}[base]
        extra = ', to_string = "pair"' if shape.endswith("_ts") else ', serialize = "pair"' if shape.endswith("_ser") else ""
        bad = ["    #[strum(%s%s)]" % (kw, extra), body]
    elif rule == "unit_placeholder":
        if shape == "via_serialize":       # the placeholder arrives through the longest serialize, there is no to_string
            bad = ['    #[strum(serialize = "l", serialize = "level-{0}")]', "    Bad,"]
        elif shape == "via_prefix":        # ... or through the enum-level prefix
            enum_attrs = ['#[strum(prefix = "{0}-")]']
            bad = ["    Bad,"]
        elif shape in ("names_const_in_scope", "names_static_in_scope"):
            # edition-2021 format strings capture identifiers from the surrounding scope: a unit variant has no fields, so the
            # placeholder is still an error even though an item of that name exists
            lines.append('pub const GREETING: &str = "hi";' if shape == "names_const_in_scope" else 'pub static GREETING: &str = "hi";')
            bad = ['    #[strum(to_string = "{GREETING}")]', "    Bad,"]
        elif shape == "nonascii_prefix":     # multi-byte text in front of the placeholder, contributed by the prefix
            enum_attrs = ['#[strum(prefix = "\u00fcn\u00efc\u00f6d\u00e9/")]']
            bad = ['    #[strum(to_string = "{0}")]', "    Bad,"]
        elif shape in ("escaped_brackets", "unicode_escaped_brackets", "raw_string"):
            # the same placeholder, with the literal spelled through escapes / as a raw string (its VALUE is what counts)
            src = {"escaped_brackets": '"\\x7bname\\x7d"', "unicode_escaped_brackets": '"a \\u{7b}0\\u{7d}"', "raw_string": 'r#"a {name}"#'}[shape]
            bad = ['    #[strum(to_string = %s)]' % src, "    Bad,"]
        else:
            lit = {"index": "a {0}", "name": "a {name}", "spec": "{0:>4}", "nonascii_arg": "{\u00e9}", "nonascii_before": "\u6570\u91cf: {0}",
                   "nonascii_around": "\u00a3\u00a3\u00a3 {0} \u00a3"}[shape]
            bad = ['    #[strum(to_string = "%s")]' % lit, "    Bad,"]
    elif rule == "empty_placeholder":
        bad = ['    #[strum(to_string = "a {}")]', "    Bad(u8),"]
    elif rule == "unknown_style":
        enum_attrs = ['#[strum(serialize_all = "%s")]' % shape]
    elif rule == "lone_parse_err":
        enum_attrs = ["#[strum(%s)]" % enum_kw_text(kw)]
        if shape.startswith("with_default"):
            dv = ["    #[strum(default)]", "    Other(String),"]
            ok_variants = ([dv] + ok_variants) if shape.endswith("first") else (ok_variants + [dv])
    elif rule == "prop_literal":
        if shape == "float_after_same_key":
            bad = ['    #[strum(props(a = "3.7", b = "x", a = 3.7))]', "    Bad,"]
        elif shape == "float_after_same_key_split":
            bad = ['    #[strum(props(a = "3.7"), props(b = "x", a = 3.7))]', "    Bad,"]
        elif shape == "char_before_same_key":
            bad = ["    #[strum(props(a = 'c', a = \"c\"))]", "    Bad,"]
        else:
            lit = {"float": "1.5", "char": "'c'", "bytestr": 'b"x"', "byte": "b'x'", "cstr": 'c"x"'}[shape]
            bad = ["    #[strum(props(a = %s))]" % lit, "    Bad,"]
    elif rule == "unknown_kw":
        if shape == "enum":
            enum_attrs = ["#[strum(bogus)]"]
        else:
            bad = ['    #[strum(bogus = "x")]', "    Bad,"]
    # contexts (Reject.tla ContextsOf): valid additions around the offence
    if ctx == "generic":
        generics = "<T: Default + Clone + PartialEq + ::core::fmt::Debug>"
        extra_ok = extra_ok + [["    Gen(T),"]]
    elif ctx == "styled":
        enum_attrs = ['#[strum(serialize_all = "kebab-case")]'] + enum_attrs
    start = len(lines) + 1
    lines.append(derive_line)
    lines += enum_attrs
    lines.append("%s%s {" % (head, generics))
    vs = list(ok_variants) + extra_ok
    vrange = None
    if bad is not None:
        idx = {"first": 0, "middle": 1, "last": len(vs)}.get(pos or "last", len(vs))
        vs.insert(idx, bad)
    if ctx == "disabled_nb":
        vs.insert(0, ["    #[strum(disabled)]", "    Off,"])
    elif ctx == "default_nb":
        vs.append(["    #[strum(default)]", "    Other(String),"])
    for v in vs:
        if v is bad:
            vrange = [len(lines) + 1, len(lines) + len(v)]
        lines += v
    lines.append("}")
    end = len(lines)
    return "\n".join(lines) + "\n", [start, end], vrange or [start, end]


def canary(grp):
    for e in grp:
        if e.get("op") == "compile" and e["rule"] != "control" and e["ctl"]:
            e["ok"] = True
            return True
    return False


def model(tier):
    cfg = core.workdir("mc_" + PROP) + "/MC_Reject.cfg"
    consts = dict(MaxLen=4 if tier == "quick" else 6)
    core.write_cfg(cfg, constants=consts, invariants=["ErrorIffDuplicate", "ReportsFirstDuplicate"])
    res = core.tlc_mc("MC_Reject.tla", cfg, "mc_" + PROP, workers=6, timeout=3600, xmx="8g")
    for a in ("ReadMeta", "Finish"):
        if res["coverage"].get(a, 0) == 0:
            raise core.ToolError("vacuity: action %s never taken" % a)
    return ("MC_Reject", res, consts)


def finding_key(x, ok, panicked):
    return dict(rule=x["rule"], derive=x["derive"], kw=x["kw"], ctx=x.get("ctx", "plain"), outcome="compiled" if ok else ("panic" if panicked else "error_elsewhere"))


def run(tier, seed, rep):
    with ThreadPoolExecutor(max_workers=1) as ex:
        mc = ex.submit(model, tier)
        insts = dump_instances()
        rlib, deps = core.strum_rlibs(("derive", "phf"))
        wd = core.workdir("progs_" + PROP)

        def compile_one(arg):
            n, x = arg
            src, item, vrange = program(x)
            p = os.path.join(wd, "i%04d.rs" % n)
            open(p, "w").write(src)
            ok, diags, _ = core.rustc_check(p, rlib, deps)
            errs = [d for d in diags if d.get("level") == "error"]
            spans, msgs = [], []
            for d in errs:
                msgs.append(d.get("message", "")[:120])
                for sp in d.get("spans", []):
                    if sp.get("is_primary"):
                        spans.append([sp["line_start"], sp["line_end"]])
            panicked = any("proc-macro derive panicked" in (d.get("message") or "") or "proc macro panicked" in (d.get("message") or "") for d in diags)
            ev = dict(op="compile", inst=n, ok=ok, panicked=panicked, spans=spans, item=item, variant=vrange, msgs=msgs, **x)
            return ev, src
        insts.sort(key=lambda x: (x["rule"] != "control", x["rule"], x["derive"], x["kw"], x["shape"], x["pos"], x["split"], x["ctx"]))
        todo = [(n, x) for n, x in enumerate(insts, 1) if core.only_defs() is None or n in core.only_defs() or x["rule"] == "control"]
        # controls first: an instance is judged only where its skeleton compiles without the offence
        ctl_res = core.pmap(compile_one, [(n, x) for n, x in todo if x["rule"] == "control"])
        ctl_ok = {(r[0]["derive"], r[0]["ctx"]): r[0]["ok"] for r in ctl_res}
        res = ctl_res + core.pmap(compile_one, [(n, x) for n, x in todo if x["rule"] != "control"])
        evs = [r[0] for r in res]
        for e in evs:
            e["ctl"] = True if e["rule"] in ("control", "non_enum") else ctl_ok.get((e["derive"], e["ctx"]), False)
        broken = sorted(k for k, v in ctl_ok.items() if not v)
        if broken:
            core.log("[C20] controls that do not compile (their instances are not judged): %s" % broken)
        srcs = {r[0]["inst"]: r[1] for r in res}
        groups = [[e] for e in evs]
        mism = pipe.validate_groups("Trace_Build", groups, PROP, rep, shard_bytes=400_000, canary=canary)
        for ev, d, text in mism:
            rep.violation(finding_key(ev, ev["ok"], ev["panicked"]),
                          "unsupported input is not rejected with an error at the item (%s on %s, %s %s %s): compiled=%s panicked=%s"
                          % (ev["rule"], ev["derive"], ev["kw"], ev["shape"], ev["pos"], ev["ok"], ev["panicked"]),
                          dict(definition=dict(id=ev["inst"]), instance={k: ev[k] for k in ("rule", "derive", "kw", "shape", "pos", "split", "ctx")}, messages=ev["msgs"], tlc=text,
                               files={"program.rs": srcs[ev["inst"]]}))
        name, r, consts = mc.result()
        rep.add_model(name, r, consts)
    rep.cov["programs"] = len(evs)
    rep.cov["evaluations"] = len(evs)
    rep.cov["distinct_nontrivial"] = len({(e["rule"], e["derive"], e["kw"], e["shape"], e["pos"], e["split"], e["ctx"]) for e in evs})
    rep.cov["at_variant"] = sum(1 for e in evs if any(e["variant"][0] <= s[0] and s[1] <= e["variant"][1] for s in e["spans"]))
    rep.cov["controls"] = sum(1 for e in evs if e["rule"] == "control")
    rep.cov["controls_not_compiling"] = [list(k) for k in broken]
    rep.cov["unjudged"] = sum(1 for e in evs if not e["ctl"])
    rep.cov["exhaustive"] = True
    rep.cov["rule"] = ("the instance list is enumerated by the specification (Reject.tla: rule x derive that consumes the construct x shape x "
                       "position x same/separate attributes, each mixed with valid variants): %d programs, each compiled on its own with rustc; "
                       "accepted iff compilation fails, no diagnostic is a proc-macro panic and some error's primary span lies inside the item "
                       "(declaration incl. its attributes); at_variant counts errors located inside the offending variant" % len(evs))
    rep.cov["samples"] = [dict(rule=e["rule"], derive=e["derive"], kw=e["kw"], shape=e["shape"], msgs=e["msgs"][:1]) for e in evs[::60]]
    rep.assumptions += ["a derive that does not consume an attribute is not required to reject its misuse (Reject.tla UsesEnumKw/UsesVariantKw)",
                        "'at the offending item' = primary span inside the declaration including its attributes (several strum errors are "
                        "reported at the derive attribute)"]
    return rep
