"""C15 - EnumProperty returns the declared value for (variant, key, type), else None."""
import random
from concurrent.futures import ThreadPoolExecutor
from .. import core, pipe, metagen as MG
from .c03 import report_compile_failures

from ..core import COMMON_DIMENSIONS
PROP = "C15"
SIZES = dict(quick=dict(sample=250, mcV=2), thorough=dict(sample=4000, mcV=3))


def canary(grp):
    for e in grp:
        if e.get("op") == "prop" and e["keys"]:
            e["ints"][0] = [[57, 57]] if not e["ints"][0] else []
            return True
    return False


def model(tier):
    cfg = core.workdir("mc_" + PROP) + "/MC_Meta.cfg"
    consts = dict(MaxV=SIZES[tier]["mcV"])
    core.write_cfg(cfg, constants=consts, invariants=["PropBuckets", "MatchesCompile"])
    res = core.tlc_mc("MC_Meta.tla", cfg, "mc_" + PROP, workers=6, timeout=7200, xmx="12g")
    for a in ("SkipDisabled", "PushArms", "Finish"):
        if res["coverage"].get(a, 0) == 0:
            raise core.ToolError("vacuity: action %s never taken" % a)
    return ("MC_Meta", res, consts)


def run(tier, seed, rep):
    sz = SIZES[tier]
    rng = random.Random(seed * 694847533 + 59)
    with ThreadPoolExecutor(max_workers=1) as ex:
        mc = ex.submit(model, tier)
        defs = [MG.prop_special(k + 1, k) for k in range(8)]
        defs += [MG.prop_def(rng, len(defs) + k + 1) for k in range(sz["sample"])]
        defs += MG.prop_extra(len(defs) + 1)
        by_id = {E["id"]: E for E in defs}
        files = {E["id"]: MG.prop_module(E, rng) for E in defs}
        exe, failed = pipe.build_corpus("c15", files)
        report_compile_failures(rep, failed, by_id, files, "EnumProperty")
        evs = pipe.run_driver(exe, PROP, {}, seed)
        groups = pipe.group_by_def(by_id, evs)
        mism = pipe.validate_groups("Trace_Meta", groups, PROP, rep, shard_bytes=1_500_000, canary=canary)
        for ev, d, text in mism:
            rep.violation(dict(kind="property_mismatch"), "EnumProperty differs from the specification: " + text[:400],
                          dict(definition=d, event_op=ev["op"], tlc=text, files={"def.rs": files.get(d["id"], "") if d else ""}))
        name, res, consts = mc.result()
        rep.add_model(name, res, consts)
    evs = [e for e in evs if e.get("op") != "panic"]      # PANIC_FILTER: statistics only (panic events were judged by TLC above)
    pe = [e for e in evs if e["op"] == "prop"]
    rep.cov["programs"] = len(defs) - len(failed)
    rep.cov["evaluations"] = 3 * sum(len(e["keys"]) for e in pe)
    rep.cov["distinct_nontrivial"] = sum(1 for e in pe for k in range(len(e["keys"])) if e["strs"][k] or e["ints"][k] or e["bools"][k])
    rep.cov["rule"] = ("enums of 1..4 variants x kinds x 0..6 props per variant in 1..3 props(..) groups, keys shared across variants and types "
                       "(incl. keyword-like keys type/fn/self/crate), string/integer (negative, i64::MIN/MAX, hex/octal/binary/underscore/"
                       "suffixed forms)/bool values; every key declared anywhere in the enum plus case/prefix/suffix variations and random "
                       "keys through get_str/get_int/get_bool on every variant; integers are compared as canonical decimal tokens; "
                       "distinct_nontrivial = lookups that returned Some")
    rep.cov["rule"] += ' + literal forms with radix and suffix; non-ASCII keys; same keys with values that read the same but differ in type; a 300-variant enum'
    rep.cov["rule"] += COMMON_DIMENSIONS
    rep.cov["samples"] = [dict(def_=e["def"], variant=e["i"], key=core.uncp(e["keys"][0]), str=e["strs"][0], int=e["ints"][0], bool=e["bools"][0]) for e in pe[:3]]
    rep.assumptions += ["integer values are opaque canonical decimal tokens in the specification (TLC integers are 32-bit)"]
    return rep
