"""C02 - printing a variant and parsing the result returns the same variant."""
import random
from concurrent.futures import ThreadPoolExecutor
from .. import core, pipe, strcorpus as SC, strgen as SG, defs as D
from ..core import uncp
from .c03 import report_compile_failures

PROP = "C02"
SIZES = dict(quick=dict(sample=300), thorough=dict(sample=5000))


def canary(grp):
    for e in grp:
        if e.get("op") == "rt":
            e["r"]["i"] += 1
            return True
    return False


def model(tier):
    cfg = core.workdir("mc_" + PROP) + "/MC_FromStr.cfg"
    consts = dict(Size=1 if tier == "quick" else 2, Dedup=True, Overlap=False)
    core.write_cfg(cfg, constants=consts, invariants=["RoundTrip", "ExpansionIsSpec"])
    res = core.tlc_mc("MC_FromStr.tla", cfg, "mc_" + PROP, workers=6, timeout=7200, xmx="12g")
    if res["coverage"].get("PushArms", 0) == 0:
        raise core.ToolError("vacuity: PushArms never taken")
    return ("MC_FromStr", res, consts)


def in_domain(f):
    return f["wf"] and f["no"] and f["wfn"] and f["dwf"] and f["iswf"] and not any(f["interp"])


def candidates(rng, n):
    cands = []
    did = 1
    # every accepted style x the acronym/digit dictionary, with explicitly named variants mixed in
    from ..defs import variant, enum, STYLES, ALIASES
    idents = ["HTTPServer", "Ab12Cd", "V2", "XmlHttpRequest", "A", "Foo_Bar", "snake_id", "SHOUT", "TLS13", "Item9"]
    for st in ["none"] + STYLES + ALIASES:
        for aci in (False, True):
            vs = [variant(i) for i in idents] + [variant("Explicit", ser=["KeepMe_AsIs", "k"]), variant("Ts", ts="Also Kept", ser=["x"])]
            cands.append(enum(did, vs, style=st, aci=aci, cis=aci))
            did += 1
    from ..defs import field
    cands.append(enum(did, [variant("Set", "named", [field("u8", "members")], ts="set{{}}"), variant("Unit", ts="{{x}}"),
                            variant("Tup", "tuple", [field("u8")], ser=["a", "}}b{{"])]))
    did += 1
    cands.append(enum(did, [variant("Before"), variant("Marked", aci=1), variant("Mb"), variant("MB"), variant("Empty", ser=[""])]))
    did += 1
    cands.append(enum(did, [variant("Mb"), variant("MB"), variant("Marked", aci=1), variant("Nothing", "tuple", [field("u8")], ser=[""])], style="none"))
    did += 1
    # a spelling that LOOKS like a template but is only an alternate spelling (the printed name is plain): it still parses
    cands.append(enum(did, [variant("Circle", "tuple", [field("u8")], ser=["circle({0})"], ts="circle"),
                            variant("Square", "named", [field("u8", "w")], ser=["sq{w}", "s"], ts="square"),
                            variant("Dot", ser=["dot{}"], ts="dot")]))
    did += 1
    # two spellings of one variant that differ only in case, under every combination of the enum-level and variant-level flag
    for eaci in (False, True):
        for order in (0, 1):
            vs = [variant("Fmt", ser=["json"], ts="JSON", aci=0), variant("Other", ser=["yaml"], ts="YAML"), variant("Third", ser=["toml"], ts="TOML", aci=1),
                  variant("Plain", ser=["ini", "INI."])]
            cands.append(enum(did, vs[::-1] if order else vs, aci=eaci))
            did += 1
    # `default_with` only tells EnumString how to fill the payload when the variant is parsed: the variant keeps its name everywhere
    cands.append(enum(did, [variant("TextBox", "tuple", [field("String")], dwith="dw_string"), variant("Point", "tuple", [field("u8")], dwith="dw_u8", ser=["pt"]),
                            variant("Plain")], style="kebab-case"))
    did += 1
    cands.append(enum(did, [variant("Plain"), variant("Flag", "tuple", [field("bool")], dwith="dw_bool")]))
    did += 1
    for k in range(n):
        cands.append(SC.names_def(rng, did, allow_prefix=False))
        did += 1
    return cands


def run(tier, seed, rep):
    sz = SIZES[tier]
    rng = random.Random(seed * 15485863 + 5)
    with ThreadPoolExecutor(max_workers=1) as ex:
        mc = ex.submit(model, tier)
        cands = candidates(rng, sz["sample"])
        facts = pipe.domain_pass(cands, PROP)
        defs = [E for E in cands if in_domain(facts[E["id"]])]
        core.log("[C02] %d candidates, %d in the documented domain" % (len(cands), len(defs)))
        by_id = {E["id"]: E for E in defs}
        files = {E["id"]: SG.names_module(E, derives=("Display", "AsRefStr", "IntoStaticStr"), dep=False, parse=True, sers=True)
                 for E in defs}
        exe, failed = pipe.build_corpus("c02", files)
        report_compile_failures(rep, failed, by_id, files, "EnumString + printing derives")
        ok_ids = [i for i in by_id if i not in failed]
        evs = pipe.run_driver(exe, PROP, {}, seed)
        groups = pipe.group_by_def(by_id, evs)
        mism = pipe.validate_groups("Trace_Str", groups, PROP, rep, shard_bytes=1_500_000, canary=canary)
        for ev, d, text in mism:
            rep.violation(dict(kind="roundtrip_mismatch", op=ev["op"]), "print-then-parse does not return the variant: " + text[:300],
                          dict(definition=d, event=ev, tlc=text, files={"def.rs": files.get(d["id"], "") if d else ""}))
        name, res, consts = mc.result()
        rep.add_model(name, res, consts)
    evs = [e for e in evs if e.get("op") != "panic"]      # PANIC_FILTER: statistics only (panic events were judged by TLC above)
    rts = [e for e in evs if e["op"] == "rt"]
    rep.cov["programs"] = len(ok_ids)
    rep.cov["evaluations"] = len(rts)
    rep.cov["distinct_nontrivial"] = len({(e["def"], e["i"], e["src"], tuple(e["s"])) for e in rts})
    rep.cov["rule"] = ("definitions = 17 style strings (none + 11 + 5 aliases) x acronym/digit dictionary x enum-level case "
                       "insensitivity + seeded samples without prefix, filtered by FromStrWF/NonOverlap/NamesWF/BraceFree; for "
                       "every enabled non-default non-transparent variant the strings printed by Display, AsRef, IntoStaticStr "
                       "and each get_serializations entry are parsed back; distinct = (definition, variant, printer, string)")
    rep.cov["samples"] = [dict(definition=e["def"], variant=e["i"], printer=e["src"], printed=uncp(e["s"]), parsed=e["r"]["i"]) for e in rts[:6]]
    rep.assumptions += ["rustc/cargo and the 1:1 definition printer are trusted"]
    return rep
