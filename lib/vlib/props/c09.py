"""C09 - EnumDiscriminants mirrors the enum: same variants, order, repr, discriminants."""
import os, random
from concurrent.futures import ThreadPoolExecutor
from .. import core, pipe, reprgen as RG
from .c03 import report_compile_failures

from ..core import COMMON_DIMENSIONS
PROP = "C09"
SIZES = dict(quick=dict(sample=220, mcV=4), thorough=dict(sample=3500, mcV=5))


def canary(grp):
    for e in grp:
        if e.get("op") == "disc":
            e["as_int"] += 1
            return True
    return False


def model(tier):
    cfg = core.workdir("mc_" + PROP) + "/MC_Disc.cfg"
    consts = dict(MaxV=SIZES[tier]["mcV"])
    core.write_cfg(cfg, constants=consts, invariants=["MirrorsNames", "MirrorsDiscriminants", "ConversionsAgree"])
    res = core.tlc_mc("MC_Disc.tla", cfg, "mc_" + PROP, workers=6, timeout=7200, xmx="10g")
    for a in ("CopyVariant", "Finish"):
        if res["coverage"].get(a, 0) == 0:
            raise core.ToolError("vacuity: action %s never taken" % a)
    return ("MC_Disc", res, consts)


VIS_PROGRAMS = [
    # (name, discriminant vis attribute, access path from outside the module, expected to compile)
    ("default_inherits_pub", "", True), ("pub", "vis(pub)", True), ("pub_crate", "vis(pub(crate))", True), ("pub_super", "vis(pub(super))", True),
    ("pub_self", "vis(pub(self))", False), ("pub_in_inner", "vis(pub(in crate::outer::inner))", False),
]


def vis_checks(rep):
    """visibility / naming clause: decided by compilation of small programs, one per form"""
    rlib, deps = core.strum_rlibs(("derive",))
    wd = core.workdir("vis_" + PROP)
    n = 0
    for name, attr, expect in VIS_PROGRAMS:
        for renamed in (False, True):
            items = [a for a in [attr, "name(Kind)" if renamed else ""] if a]
            a = ("#[strum_discriminants(%s)]\n" % ", ".join(items)) if items else ""
            dn = "Kind" if renamed else "EDiscriminants"
            src = ("#![allow(warnings)]\npub mod outer { pub mod inner {\n#[derive(strum::EnumDiscriminants)]\n%spub enum E { A(u8), B }\n}\n"
                   "pub fn touch() -> usize { let d: inner::%s = inner::%s::from(inner::E::A(1)); d as usize }\n}\n" % (a, dn, dn))
            p = os.path.join(wd, "%s_%d.rs" % (name, renamed))
            open(p, "w").write(src)
            ok, diags, _ = core.rustc_check(p, rlib, deps)
            n += 1
            if ok != expect:
                msgs = [d.get("message", "") for d in diags if d.get("level") == "error"]
                rep.violation(dict(kind="vis_mismatch", form=name), "visibility/name requested through strum_discriminants(..) did not take effect "
                              "(%s, renamed=%s): compiled=%s, expected=%s" % (name, renamed, ok, expect), dict(source=src, errors=msgs))
    return n


def run(tier, seed, rep):
    sz = SIZES[tier]
    rng = random.Random(seed * 715225741 + 61)
    with ThreadPoolExecutor(max_workers=1) as ex:
        mc = ex.submit(model, tier)
        cands = [RG.disc_def(rng, k + 1) for k in range(sz["sample"])]
        defs = RG.in_domain(cands, PROP)
        by_id = {E["id"]: E for E in defs}
        files = {E["id"]: RG.disc_module(E) for E in defs}
        exe, failed = pipe.build_corpus("c09", files)
        for did, msgs in failed.items():
            E = by_id[did]
            rep.violation(dict(kind="compile_error", msg=msgs[0][:60], repr_mode=E["repr_mode"]),
                          "in-domain EnumDiscriminants definition does not compile: " + msgs[0][:200],
                          dict(definition=E, errors=msgs, files={"def.rs": files[did]}))
        evs = pipe.run_driver(exe, PROP, {}, seed)
        groups = pipe.group_by_def(by_id, evs)
        mism = pipe.validate_groups("Trace_Repr", groups, PROP, rep, shard_bytes=1_500_000, canary=canary)
        for ev, d, text in mism:
            rep.violation(dict(kind="disc_mismatch", op=ev["op"], repr_mode=d["repr_mode"] if d else ""),
                          "discriminant enum does not mirror the enum: " + text[:400],
                          dict(definition=d, event=ev, tlc=text, files={"def.rs": files.get(d["id"], "") if d else ""}))
        nvis = vis_checks(rep)
        name, res, consts = mc.result()
        rep.add_model(name, res, consts)
    evs = [e for e in evs if e.get("op") != "panic"]      # PANIC_FILTER: statistics only (panic events were judged by TLC above)
    rep.cov["programs"] = len(defs) - len(failed) + nvis
    rep.cov["evaluations"] = 5 * sum(1 for e in evs if e["op"] == "disc") + sum(1 for e in evs if e["op"] != "disc") + nvis
    rep.cov["distinct_nontrivial"] = len({(e["def"], e["i"]) for e in evs if e["op"] == "disc"})
    rep.cov["rule"] = ("enums mixing kinds x generics/lifetimes/where-clauses x repr (none, integer types, C, align, combined and split "
                       "#[repr] attributes) x explicit (incl. expression-valued) discriminants x name()/vis()/derive()/pass-through strum "
                       "attributes; every variant constructed with two payloads: From<E>, From<&E>, discriminant() by declaration index, "
                       "`as` integer vs Discr and vs E's own tag; size/align vs a hand-written field-less enum with the same repr lines; "
                       "requested derives observed by using them (iterate, print under the passed-through serialize_all, parse back, hash, "
                       "COUNT); name and visibility decided by %d small programs compiled one by one" % nvis)
    rep.cov["rule"] += ' + macro-assembled discriminants; a variant named Discriminant; bare-path and name-value pass-through on variants; type-level doc(hidden) / allow / cfg_attr pass-through'
    rep.cov["rule"] += COMMON_DIMENSIONS
    rep.cov["samples"] = [e for e in evs if e["op"] == "disc"][:3]
    rep.assumptions += ["the tag of a #[repr(int)] enum with fields is read through a pointer cast (guaranteed layout)"]
    return rep
