"""C18 - a custom parse error is the user's function applied to the exact rejected input."""
import random, copy
from .. import core, parsecheck as PC, strcorpus as SC
from ..defs import variant, enum, field

PROP = "C18"
SIZES = dict(quick=dict(sample=220, cap=140, flips=5), thorough=dict(sample=3000, cap=1200, flips=9))


def model(tier):
    cfg = core.workdir("mc_" + PROP) + "/MC_ParseErr.cfg"
    consts = dict(MaxCalls=3 if tier == "quick" else 4)
    core.write_cfg(cfg, constants=consts, invariants=["CallsCountRejections", "PayloadVerbatim", "ErrorType"],
                   properties=["CallsMonotone"])
    res = core.tlc_mc("MC_ParseErr.tla", cfg, "mc_" + PROP, workers=6, timeout=7200, xmx="10g")
    for a in ("DoAccept", "DoRejectCustom", "DoRejectStandard"):
        if res["coverage"].get(a, 0) == 0:
            raise core.ToolError("vacuity: action %s of MC_ParseErr never taken" % a)
    return ("MC_ParseErr", res, consts)


def candidates(rng, n):
    cands, did = [], 1
    base = []
    for E in SC.dictionary(1):
        if not any(v["def"] for v in E["variants"]):
            base.append(E)
    ndict = len(base)
    for k in range(n):
        E = SC.sample_def(rng, 0, nmax=6, default_ok=False, perr=False)
        if E["generics"] == "none" and k % 5 == 0:
            # disabled + default: the variant is removed, the enum still has no (effective) default variant
            E["variants"].insert(rng.randint(0, len(E["variants"])), variant("Legacy", "tuple", [field("String")], default=True, dis=True))
        base.append(E)
    for bi, E in enumerate(base):
        if bi == ndict:
            did = max(did, 2001)      # the ids of the sampled definitions do not depend on how long the dictionary has grown
        fieldless = E["generics"] == "none" and all(v["kind"] == "unit" for v in E["variants"])
        for perr in (True, False):
            for phf in ((False, True) if fieldless else (False,)):
                E2 = copy.deepcopy(E)
                E2["id"], E2["name"], E2["perr"], E2["phf"] = did, "E%d" % did, perr, phf
                # the error type / function may be written relative to the enum itself
                E2["perr_form"] = (did % 9) if perr else 0
                E2["via_macro"] = E2["perr_form"] == 0 and did % 2 == 1
                cands.append(E2)
                did += 1
    return cands


def module(E):
    """perr_form 1: parse_err_fn = Self::make_err (an inherent function); 2: generic error type mentioning the enum's own parameter"""
    from .. import strgen as SG, defs as D
    src = SG.parse_module(E)
    form = E.get("perr_form", 0)
    if form == 1:
        src = src.replace("parse_err_fn = user_err", "parse_err_fn = Self::make_err")
        g = D.GENERICS[E["generics"]]
        src += "%s { pub fn make_err(s: &str) -> UserErr { user_err(s) } }\n" % D.impl_header(E)
    elif form == 3:
        src = src.replace("parse_err_fn = user_err", "parse_err_fn = UserErr::from")        # impl From<&str> for UserErr
    elif form == 8:
        # the user's own error type carries the name of strum's
        src = src.replace("parse_err_ty = UserErr", "parse_err_ty = ParseError").replace("parse_err_fn = user_err", "parse_err_fn = ParseError::unknown")
        src = src.replace("parse_batch::<%s, UserErr>" % D.inst(E), "parse_batch::<%s, ParseError>" % D.inst(E))
        src = src.replace("perr_event::<%s, UserErr>" % D.inst(E), "perr_event::<%s, ParseError>" % D.inst(E))
        src += ("#[derive(Debug, Clone, PartialEq)]\npub struct ParseError(pub String);\n"
                "impl ParseError { pub fn unknown(s: &str) -> ParseError { ParseError(user_err(s).0) } }\n"
                "impl ErrProbe for ParseError { fn enc(&self) -> (&'static str, Option<String>) { (\"ue\", Some(self.0.clone())) } }\n")
    elif form == 7:
        # `::core::..` is rooted at the crate list: a local module called `core` must not be looked at
        src = src.replace("parse_err_fn = user_err", "parse_err_fn = ::core::convert::From::from") + "pub mod core { pub mod convert {} }\n"
    elif form == 5:
        src = src.replace("parse_err_fn = user_err", "parse_err_fn = err_into")               # generic in the return type
    elif form == 6:
        src = src.replace("parse_err_fn = user_err", "parse_err_fn = From::from")             # the trait function itself
    elif form == 4:
        src = src.replace("parse_err_fn = user_err", "parse_err_fn = user_err_generic")       # fn f<S: AsRef<str>>(s: S) -> UserErr
    elif form == 2 and E["generics"] in ("ty", "tywhere", "tydef"):
        src = src.replace("parse_err_ty = UserErr", "parse_err_ty = GenErr<T>").replace("parse_err_fn = user_err", "parse_err_fn = gen_err")
        src = src.replace("parse_batch::<%s, UserErr>" % D.inst(E), "parse_batch::<%s, GenErr<u16>>" % D.inst(E))
    return src


def run(tier, seed, rep):
    sz = SIZES[tier]
    rng = random.Random(seed * 67867967 + 13)
    r = PC.run_parse_check(PROP, "c18", rep, candidates(rng, sz["sample"]), rng, seed, sz["cap"], sz["flips"],
                           lambda: model(tier), what="parse error differs from f(exact rejected input)", module_fn=module,
                           features=("derive", "phf"))
    rej = sum(1 for e in r["events"] if e["op"] == "parse" for x in e["res"] if x["k"] in ("ue", "nf"))
    rep.cov["rejected_inputs"] = rej
    rep.cov["rule"] = ("default-free definitions of C01's corpus, each built twice (parse_err_ty/parse_err_fn vs standard error); the user "
                       "function logs every invocation; per call the event records result, error payload, number and arguments of "
                       "invocations; FromStr::Err / TryFrom::Error are fixed by the driver's type annotations; distinct = (definition, input)")
    rep.assumptions += ["rustc/cargo and the 1:1 definition printer are trusted"]
    return rep
