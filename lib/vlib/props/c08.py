"""C08 - COUNT, VariantNames, VariantArray and EnumIter describe the same variant list."""
import itertools, random
from concurrent.futures import ThreadPoolExecutor
from .. import core, pipe, itergen as IG, strcorpus as SC
from ..defs import variant, enum, STYLES
from .c03 import report_compile_failures

from ..core import COMMON_DIMENSIONS
PROP = "C08"
SIZES = dict(quick=dict(full_masks=4, sampled=150, mcV=7), thorough=dict(full_masks=7, sampled=3000, mcV=10))


def canary(grp):
    for e in grp:
        if e.get("op") == "lists":
            e["count"] += 1
            return True
    return False


def model(tier):
    cfg = core.workdir("mc_" + PROP) + "/MC_IterExpand.cfg"
    consts = dict(MaxV=SIZES[tier]["mcV"])
    core.write_cfg(cfg, constants=consts, invariants=["CountIsLen", "OnePerVariant", "SamePositions", "TableIsIterList"])
    res = core.tlc_mc("MC_IterExpand.tla", cfg, "mc_" + PROP, workers=4, timeout=3600, xmx="8g")
    for a in ("SkipDisabled", "AssignIndex", "Finish"):
        if res["coverage"].get(a, 0) == 0:
            raise core.ToolError("vacuity: action %s never taken" % a)
    return ("MC_IterExpand", res, consts)


def fieldless(rng, did, n, mask):
    vs = []
    disc = None
    for i in range(n):
        mode = rng.choice(["none", "none", "ser", "ts", "both"])
        ser = rng.sample(SC.NAME_LITS, rng.choice([1, 2, 3])) if mode in ("ser", "both") else []
        ts = rng.choice(SC.NAME_LITS) if mode in ("ts", "both") else None
        v = variant(IG.ids_for(did)[i], ser=ser, ts=ts, dis=bool(mask[i]))
        if rng.random() < 0.25:
            disc = (disc if disc is not None else i) + rng.choice([1, 2, 10])
            v["disc"] = [disc]
        elif disc is not None:
            disc += 1
        vs.append(v)
    if n >= 2 and rng.random() < 0.3:
        # descending / restarting explicit values (all distinct): declaration order is what counts, not the value
        base = 10 * n + rng.randrange(5)
        for i, v in enumerate(vs):
            v["disc"] = [base - 7 * i] if i % 2 == 0 or rng.random() < 0.5 else []
        seen, cur, ok = set(), None, True
        for v in vs:
            cur = v["disc"][0] if v["disc"] else (0 if cur is None else cur + 1)
            ok = ok and cur not in seen and cur >= 0
            seen.add(cur)
        if not ok:
            for v in vs:
                v["disc"] = []
    return enum(did, vs, style=rng.choice(["none", "none"] + STYLES), prefix=rng.choice(SC.PREFIXES), split=rng.randrange(2))


def run(tier, seed, rep):
    sz = SIZES[tier]
    rng = random.Random(seed * 15485867 + 37)
    with ThreadPoolExecutor(max_workers=1) as ex:
        mc = ex.submit(model, tier)
        cands, did = [], 1
        for n in range(0, sz["full_masks"] + 1):
            for mask in itertools.product([0, 1], repeat=n):
                cands.append(fieldless(rng, did, n, mask))
                did += 1
        # neighbouring variants whose canonical names coincide still get one entry each
        # more variants than a byte counts (identifier names only, so that the naming side conditions hold)
        cands.append(enum(did, [variant(IG.ids_for(did)[i], dis=(i % 11 == 3)) for i in range(280)], style="snake_case", prefix="p.")); did += 1
        cands.append(enum(did, [variant("Kb"), variant("KB"), variant("Mb")], style="lowercase")); did += 1
        for rp, vals in (("u8", [2, 1, 0]), ("u16", [1, 0, 3, 2]), ("u8", [10, 11, 12])):
            cands.append(enum(did, [variant(IG.IDS[i], disc=x) for i, x in enumerate(vals)], repr_=rp)); did += 1
        cands.append(enum(did, [variant("Low"), variant("Medium", ser=["High"]), variant("High"), variant("Max")])); did += 1
        cands.append(enum(did, [variant("A", ts="same"), variant("B", ts="same"), variant("C", dis=True, ts="same"), variant("D", ts="same")], prefix="p")); did += 1
        for k in range(sz["sampled"]):
            n = rng.randint(1, 10)
            cands.append(fieldless(rng, did, n, [1 if rng.random() < 0.25 else 0 for _ in range(n)]))
            did += 1
        # COUNT, iter and VariantNames also exist for enums with payloads (no VariantArray there): one name per DECLARED variant, whatever
        # its kind and attributes (default catch-all, transparent, disabled, an explicit empty name)
        from ..defs import field
        payload = [
            enum(0, [variant("Red"), variant("Other", "tuple", [field("String")], default=True), variant("Stop", ser=["stop"]), variant("Last", "named", [field("u8", "n")])]),
            enum(0, [variant("Other", "named", [field("String", "text")], default=True, ts="fallback"), variant("Off", dis=True), variant("Unset", ser=[""]), variant("Z", "tuple", [field("u8"), field("bool")])], style="snake_case"),
            enum(0, [variant("A", "tuple", [field("u8")], dis=True), variant("Other", "tuple", [field("boxstr")], default=True, dis=True), variant("B", ts="")], prefix="p."),
            enum(0, [variant("Inner", "tuple", [field("sstr")], transp=True), variant("Mid"), variant("Inner2", "named", [field("sstr", "s")], transp=True, ser=["named"])], style="kebab-case"),
        ]
        for E in payload:
            E = dict(E, id=did, name="E%d" % did, namecp=core.cp("E%d" % did), payload=True)
            cands.append(E); did += 1
        for k in range(sz["sampled"] // 3):
            E = SC.names_def(rng, did)
            E["payload"] = True
            cands.append(E); did += 1
        facts = pipe.domain_pass(cands, PROP)
        defs = [E for E in cands if facts[E["id"]]["wfn"] and facts[E["id"]]["bf"]]
        core.log("[C08] %d candidates, %d in the documented domain" % (len(cands), len(defs)))
        by_id = {E["id"]: E for E in defs}
        files = {E["id"]: IG.lists_module(E, array=not E.get("payload")) for E in defs}
        exe, failed = pipe.build_corpus("c08", files)
        report_compile_failures(rep, failed, by_id, files, "EnumCount + VariantNames + VariantArray + EnumIter")
        evs = pipe.run_driver(exe, PROP, {}, seed)
        groups = pipe.group_by_def(by_id, evs)
        mism = pipe.validate_groups("Trace_Iter", groups, PROP, rep, shard_bytes=1_500_000, canary=canary)
        for ev, d, text in mism:
            rep.violation(dict(kind="lists_mismatch"), "COUNT / VariantNames / VariantArray / iter disagree with the variant list: " + text[:300],
                          dict(definition=d, event=ev, tlc=text, files={"def.rs": files.get(d["id"], "") if d else ""}))
        name, res, consts = mc.result()
        rep.add_model(name, res, consts)
    evs = [e for e in evs if e.get("op") != "panic"]      # PANIC_FILTER: statistics only (panic events were judged by TLC above)
    rep.cov["programs"] = len(defs) - len(failed)
    rep.cov["evaluations"] = 5 * len(evs)
    rep.cov["distinct_nontrivial"] = len({e["def"] for e in evs if e["op"] == "lists" and len(e["names"]) > 0})
    rep.cov["rule"] = ("field-less enums of 0..10 variants x every disabled mask up to %d variants (sampled above) x explicit discriminants x "
                       "serialize/to_string/prefix/serialize_all; one event per definition with COUNT, iter().count(), the iterated "
                       "declaration indices, VariantNames::VARIANTS and the declaration indices of VariantArray::VARIANTS; TLC checks each "
                       "against its statement and the cross relations; distinct_nontrivial = definitions with at least one variant" % sz["full_masks"])
    rep.cov["rule"] += ' + a 280-variant enum + enums with payloads (default catch-all, transparent, generic; COUNT / iter / VariantNames only)'
    rep.cov["rule"] += COMMON_DIMENSIONS
    rep.cov["samples"] = [dict(def_=e["def"], count=e["count"], iter=e["iter"], array=e["array"], names=[core.uncp(x) for x in e["names"]]) for e in evs[30:33]]
    rep.assumptions += ["rustc/cargo, the 1:1 printer and the generated decl_index are trusted"]
    return rep
