"""C13 - EnumIs predicates partition the variants; EnumTryAs returns payloads unchanged."""
import random
from concurrent.futures import ThreadPoolExecutor
from .. import core, pipe, metagen as MG
from .c03 import report_compile_failures

from ..core import COMMON_DIMENSIONS
PROP = "C13"
SIZES = dict(quick=dict(sample=180, mcL=5), thorough=dict(sample=3000, mcL=6))


def canary(grp):
    for e in grp:
        if e.get("op") == "is" and e["m"]:
            e["m"][0]["val"] = not e["m"][0]["val"]
            return True
    return False


def model(tier):
    cfg = core.workdir("mc_" + PROP) + "/MC_Heck.cfg"
    consts = dict(MaxLen=SIZES[tier]["mcL"] - (1 if tier == "thorough" else 0), Latin1=(tier == "thorough"))
    core.write_cfg(cfg, constants=consts, invariants=["ScannerEqualsRule", "SnakifyShape", "WordsPartition"])
    res = core.tlc_mc("MC_Heck.tla", cfg, "mc_" + PROP, workers=6, timeout=7200, xmx="10g")
    for a in ("SplitAfter", "SplitBefore", "Advance"):
        if res["coverage"].get(a, 0) == 0:
            raise core.ToolError("vacuity: action %s never taken" % a)
    return ("MC_Heck", res, consts)


def run(tier, seed, rep):
    sz = SIZES[tier]
    rng = random.Random(seed * 533000389 + 47)
    with ThreadPoolExecutor(max_workers=1) as ex:
        mc = ex.submit(model, tier)
        cands = [MG.isas_special(k + 1, k) for k in range(14)]
        cands += [MG.isas_def(rng, len(cands) + k + 1) for k in range(sz["sample"])]
        facts = pipe.domain_pass(cands, PROP)
        defs = [E for E in cands if facts[E["id"]]["iswfn"]]
        core.log("[C13] %d candidates, %d in the documented domain" % (len(cands), len(defs)))
        by_id = {E["id"]: E for E in defs}
        files = {E["id"]: MG.isas_module(E, facts[E["id"]]) for E in defs}
        exe, failed = pipe.build_corpus("c13", files)
        report_compile_failures(rep, failed, by_id, files, "EnumIs + EnumTryAs (method names are taken from the specification)")
        evs = pipe.run_driver(exe, PROP, {}, seed)
        groups = pipe.group_by_def(by_id, evs)
        mism = pipe.validate_groups("Trace_Meta", groups, PROP, rep, shard_bytes=1_500_000, canary=canary)
        for ev, d, text in mism:
            rep.violation(dict(kind="is_tryas_mismatch", op=ev["op"]), "EnumIs/EnumTryAs differs from the specification: " + text[:400],
                          dict(definition=d, event=ev, tlc=text, files={"def.rs": files.get(d["id"], "") if d else ""}))
        name, res, consts = mc.result()
        rep.add_model(name, res, consts)
    evs = [e for e in evs if e.get("op") != "panic"]      # PANIC_FILTER: statistics only (panic events were judged by TLC above)
    rep.cov["programs"] = len(defs) - len(failed)
    rep.cov["evaluations"] = sum(len(e["m"]) + len(e["d"]) for e in evs if e["op"] == "is") + sum(1 for e in evs if e["op"] == "tryas")
    rep.cov["distinct_nontrivial"] = len({(e["def"], e["i"], e.get("j"), e.get("mode")) for e in evs})
    rep.cov["rule"] = ("enums of 1..6 variants x kinds x 0..3 tuple fields (distinct types, and the same type with distinct values) x generics "
                       "and lifetimes x identifiers with digits/acronyms; method names come from the specification (IsName/TryAsName), so a "
                       "differently named method is a compile failure; every value (every variant, disabled ones included) against every "
                       "is_* predicate and every try_as_*/_ref/_mut method; _mut followed by writes and a direct re-read; distinct = "
                       "(definition, value variant, method variant, mode)")
    rep.cov["rule"] += ' + a 300-variant enum (values around the multiples of 16 and the tail against every method); one-field tuple variants with a trailing comma'
    rep.cov["rule"] += COMMON_DIMENSIONS
    rep.cov["samples"] = [e for e in evs if e["op"] == "tryas"][3:6]
    rep.assumptions += ["identifiers with an underscore next to a digit, and identifiers with coinciding snake forms, are outside the domain"]
    return rep
