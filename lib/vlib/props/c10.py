"""C10 - EnumTable is a total map from enabled variants to values."""
import itertools, random
from concurrent.futures import ThreadPoolExecutor
from .. import core, pipe, itergen as IG
from .c03 import report_compile_failures

from ..core import COMMON_DIMENSIONS
PROP = "C10"
SIZES = dict(quick=dict(maxv=5, depth=lambda n: 3 if n <= 2 else 2, steps=300, mcV=4, mcOps=3),
             thorough=dict(maxv=6, depth=lambda n: 5 if n <= 2 else 4 if n <= 3 else 3, steps=3000, mcV=5, mcOps=4))


def canary(grp):
    for e in grp:
        if e.get("op") == "tb" and e["call"] == "write" and e["slots"]:
            e["slots"][-1] = (e["slots"][-1] + 1) % 250
            return True
    return False


def model(tier):
    sz = SIZES[tier]
    cfg = core.workdir("mc_" + PROP) + "/MC_Table.cfg"
    consts = dict(MaxV=sz["mcV"], MaxOps=sz["mcOps"], Vals="{0, 1, 2}")
    core.write_cfg(cfg, constants=consts, invariants=["TotalMap", "AgreesWithRef", "ReadYourWrite", "PanicOnlyOnDisabled"], properties=["Frame"])
    res = core.tlc_mc("MC_Table.tla", cfg, "mc_" + PROP, workers=6, timeout=7200, xmx="10g")
    for a in ("Write", "Read", "IndexDisabled", "Transform"):
        if res["coverage"].get(a, 0) == 0:
            raise core.ToolError("vacuity: action %s of MC_Table never taken" % a)
    return ("MC_Table", res, consts)


def run(tier, seed, rep):
    sz = SIZES[tier]
    rng = random.Random(seed * 472882027 + 43)
    with ThreadPoolExecutor(max_workers=1) as ex:
        mc = ex.submit(model, tier)
        defs, did = [], 1
        # every non-empty enabled mask for 1..maxv variants; identifiers with digits/acronyms exercise the field naming
        idents2 = ["HTTPServer", "Ab12Cd", "V2", "Xml2Json", "A", "TLS13"]
        for n in range(1, sz["maxv"] + 1):
            for mask in itertools.product([0, 1], repeat=n):
                if all(mask):
                    continue
                defs.append(IG.table_def(did, mask, IG.ids_for(did) if did % 3 else idents2))
                did += 1
        # more variants than small-size special cases of library routines cover (40, two of them disabled, not at the end)
        defs.append(IG.table_def(did, [1 if i in (2, 17) else 0 for i in range(40)], IG._Ids(IG.IDS))); did += 1
        # exactly 8 / 16 / 24 enabled variants (with and without a disabled one among them), 7 and 9 next to them
        for nen, dis in ((8, ()), (8, (3,)), (16, ()), (16, (0, 9)), (24, (5,)), (7, ()), (9, (8,))):
            total = nen + len(dis)
            defs.append(IG.table_def(did, [1 if i in dis else 0 for i in range(total)], IG._Ids(IG.IDS))); did += 1
        by_id = {E["id"]: E for E in defs}
        files = {}
        for E in defs:
            n_en = sum(1 for v in E["variants"] if not v["dis"])
            files[E["id"]] = IG.table_module(E, sz["depth"](n_en) if n_en <= 8 else 1, sz["steps"])
        evs = []
        for release in (False, True):          # both profiles: "panics" must not be a debug assertion
            exe, failed = pipe.build_corpus("c10", files, release=release)
            if not release:
                report_compile_failures(rep, failed, by_id, files, "EnumTable")
            evs1 = pipe.run_driver(exe, PROP + ("r" if release else "d"), {}, seed)
            evs += evs1
            groups = pipe.group_by_def(by_id, evs1)
            mism = pipe.validate_groups("Trace_Table", groups, PROP + ("r" if release else "d"), rep, shard_bytes=2_500_000, canary=canary, par=8)
            for ev, d, text in mism:
                rep.violation(dict(kind="table_mismatch", call=ev.get("call"), profile="release" if release else "dev"),
                              "table call is not a step of the total-map model: " + text[:400],
                              dict(definition=d, event=ev, tlc=text, files={"def.rs": files.get(d["id"], "") if d else ""}))
        name, res, consts = mc.result()
        rep.add_model(name, res, consts)
    evs = [e for e in evs if e.get("op") == "tb"]      # statistics only (panic and alias events were judged by TLC above)
    rep.cov["programs"] = len(defs) - len(failed)
    rep.cov["evaluations"] = len(evs)
    rep.cov["distinct_nontrivial"] = len({(e["def"], e["call"], e["from"], e["k"], e["v"], tuple(e["slots"]), tuple(e.get("mask", []))) for e in evs})
    rep.cov["exhaustive"] = True
    rep.cov["rule"] = ("every non-empty enabled mask of 1..%d variants (%d shapes); per shape: new with distinct values per slot, filled, "
                       "from_closure, transform, Default, Clone/PartialEq, all() under every Some/None mask, all_ok() under every Ok/Err mask, "
                       "Index and IndexMut with every disabled variant, EVERY write sequence up to depth D over all keys x {0,1,2} (each edge on a "
                       "clone of its parent, all keys read back at the leaves) and a long random write/read history; the full slot projection "
                       "is compared after every call" % (sz["maxv"], len(defs)))
    rep.cov["rule"] += " + a 40-variant table; tables of shared handles built with default() (a change through one slot's value shows in no other slot); Table<T>: Default needs only T: Default"
    rep.cov["rule"] += COMMON_DIMENSIONS
    rep.cov["samples"] = [dict(def_=e["def"], call=e["call"], key=e["k"], value=e["v"], slots=e["slots"]) for e in evs[40:400:90]]
    rep.assumptions += ["enum names equal to the table template's own generic parameters (T, U, F, E) are kept out of the corpus (observation O1)",
                        "the closures given to from_closure/transform are fixed and shared with the specification (ClosureF, TransformF)"]
    return rep
