"""Candidate definitions for the string derives (EnumString & co) and input-string generation.
Candidates are only *candidates*: the specification's Domain pass decides which are in the documented domain."""
import itertools, random
from .core import cp, uncp
from .defs import variant, field, enum, STYLES, ALIASES, TYPES

IDENTS = ["Red", "Green", "BlueGreen", "HTTPServer", "Ab12Cd", "V2", "Xml2Json", "A", "Ab", "Yellow", "Purple",
          "DarkBlue", "X1", "IOError", "MyVariant", "Kelvin", "Ks", "Sharp", "Foo_Bar", "snake_id", "SHOUT", "Option2",
          "Zz", "Query", "Item9", "TLS13", "K", "Err", "Error", "None", "Some", "Ok", "Output", "type", "fn", "match", "\u00c9clair", "red", "rgbValue"]
LITS = ["blue", "b", "Blue", "BLUE", "light-blue", "Light Blue", "r", "red", "RED", "gReEn", "y", "yellow", "ks", "Ks", "k",
        "K", "1a", "2", "", " x", "a b", "été", "ÉTÉ", "straße", "K", "ſ", "İx", "i̇",
        "dotlessı", "semi;colon", "quo\"te", "back\\slash", "tab\there", "new\nline", "\U0001F600", "x_y", "X-Y",
        "fin", "ﬁn", "zero​width", "purp", "black", "white", "bla", "Zq", "camelCase", "snake_case"]
FIELD_NAMES = ["f", "s", "x", "v", "val", "value", "idx", "func", "field0", "discriminant", "phf", "name", "n"]
PLAIN_TYPES = ["u8", "i32", "bool", "String", "opt", "tricky", "unit", "arr2", "tup", "optstr"]


def rand_fields(rng, kind, n, generics):
    tys = list(PLAIN_TYPES)
    if generics in ("ty", "tywhere", "tyconst", "tydef"):
        tys += ["T", "T"]
    if generics == "lt":
        tys += ["str", "str"]
    if generics in ("const", "tyconst", "constdef"):
        tys += ["arr"]
    fs = []
    names = rng.sample(FIELD_NAMES, n)
    for k in range(n):
        fs.append(field(rng.choice(tys), names[k] if kind == "named" else ""))
    return fs


def ensure_generic_use(rng, E):
    """every declared generic parameter must be used by some field, otherwise rustc rejects the enum itself"""
    g = E["generics"]
    need = {"ty": ["T"], "tywhere": ["T"], "lt": ["str"], "const": ["arr"], "tyconst": ["T", "arr"], "none": [], "tydef": ["T"], "constdef": ["arr"]}[g]
    have = {f["ty"] for v in E["variants"] for f in v["fields"]}
    for t in need:
        if t not in have:
            # add a carrier variant (enabled, plain) at the end
            nm = {"T": "CarrierT", "str": "CarrierL", "arr": "CarrierN"}[t]
            E["variants"].append(variant(nm, "tuple", [field(t)]))
    return E


def rand_variant(rng, ident, generics, allow_default=True, allow_disabled=True, p_lit=0.6, lits=None, used=None, allow_transparent=False):
    lits = lits or LITS
    kind = rng.choice(["unit", "unit", "tuple", "named"])
    nf = 0 if kind == "unit" else rng.choice([0, 1, 1, 1, 2, 3])       # `V()` and `V {}` are legal variants too
    fields = rand_fields(rng, kind, nf, generics)
    ser, ts = [], None
    if rng.random() < p_lit:
        nser = rng.choice([0, 1, 1, 2, 3])
        for _ in range(nser):
            ser.append(rng.choice(lits))
        if rng.random() < 0.4:
            ts = rng.choice(lits)
    dis = allow_disabled and rng.random() < 0.15
    aci = rng.choice([2, 2, 2, 1, 0])
    v = variant(ident, kind, fields, ser=ser, ts=ts, dis=dis, aci=aci, acif=rng.randrange(2))
    if allow_transparent and nf == 1 and not dis and rng.random() < 0.12:
        v["transp"] = True          # consumed by Display / AsRefStr / IntoStaticStr; EnumString parses the variant like any other
    if dis and rng.random() < 0.4:
        # `disabled` in a later #[strum(..)] attribute, after a non-strum attribute
        v["aci"] = 2
        items = ['serialize = %s' % __import__("vlib.defs", fromlist=["rs_str"]).rs_str(s) for s in v["ser"]] + (['to_string = %s' % __import__("vlib.defs", fromlist=["rs_str"]).rs_str(v["ts"][0])] if v["ts"] else [])
        v["raw"] = (["#[strum(%s)]" % ", ".join(items)] if items else ["#[strum()]"]) + ["#[allow(dead_code)]", "#[strum(disabled)]"]
    # default_with: variant level on 1-field tuple, field level on named fields (the documented forms)
    if kind == "tuple" and nf == 1 and fields[0]["ty"] in PLAIN_TYPES and rng.random() < 0.3:
        from .defs import TYPES
        v["dwith"] = TYPES[fields[0]["ty"]][4] or ""
    if kind == "named":
        from .defs import TYPES
        for f in fields:
            if f["ty"] in PLAIN_TYPES and rng.random() < 0.3:
                f["dw"] = TYPES[f["ty"]][4] or ""
    return v


def default_variant(rng, ident, named=None):
    named = rng.random() < 0.4 if named is None else named
    ty = rng.choice(["String", "String", "boxstr"])
    dis = rng.random() < 0.12          # default + disabled: the variant is removed, it must not become the catch-all
    if named:
        return variant(ident, "named", [field(ty, rng.choice(FIELD_NAMES))], default=True, dis=dis)
    return variant(ident, "tuple", [field(ty)], default=True, dis=dis)


def sample_def(rng, did, nmax=8, perr=None, phf=False, fieldless=False, default_ok=True, styles=None):
    n = rng.choice([0, 1, 2, 2, 3, 3, 4, 5, 6, 8][: max(1, nmax + 2)])
    n = min(n, nmax)
    generics = "none" if fieldless else rng.choice(["none", "none", "none", "ty", "tywhere", "lt", "const", "tyconst", "tydef", "constdef"])
    idents = rng.sample(IDENTS, n)
    lits = rng.sample(LITS, min(len(LITS), 4 + 3 * n))
    vs = []
    has_def = False
    for k, ident in enumerate(idents):
        if default_ok and not has_def and not fieldless and rng.random() < 0.18:
            vs.append(default_variant(rng, ident))
            has_def = True
            continue
        v = rand_variant(rng, ident, generics, lits=lits, allow_transparent=True)      # (parse corpora: EnumString ignores `transparent`)
        if fieldless:
            v["kind"], v["fields"], v["nf"], v["dwith"] = "unit", [], 0, ""
        vs.append(v)
    style = rng.choice((styles or (["none"] * 6 + STYLES + ALIASES)))
    if phf is None:
        phf = generics == "none" and all(v["kind"] == "unit" or v["def"] for v in vs) and rng.random() < 0.5
    E = enum(did, vs, style=style, aci=rng.random() < 0.3, phf=phf, generics=generics, split=rng.randrange(2),
             perr=(rng.random() < 0.4 if perr is None else perr) and (not has_def or (perr is None and rng.random() < 0.5)),
             prefix=rng.choice([None, None, None, "p/", " "]))        # a prefix belongs to the printing derives: EnumString ignores it
    return ensure_generic_use(rng, E)


def dictionary(start_id):
    """realistic definitions (the shapes of the repository's tests and documentation)"""
    out = []
    did = start_id

    def add(vs, **kw):
        nonlocal did
        out.append(enum(did, vs, **kw))
        did += 1

    # strum_tests/from_str.rs Color
    add([variant("Red"), variant("Blue", "named", [field("u8", "hue")], ser=["b", "blue"]),
         variant("Yellow", "tuple", [field("u8")], ser=["y", "yellow"], dwith="dw_u8"),
         variant("Green", "tuple", [field("String")], default=True),
         variant("Purple", "tuple", [field("bool")], ser=["purp"], ts="purple"),
         variant("Black", ser=["blk", "Black"], aci=1)])
    # Week
    add([variant(d) for d in ["Sunday", "Monday", "Tuesday", "Wednesday", "Thursday", "Friday", "Saturday"]])
    # Brightness with serialize_all
    add([variant("DarkBlack"), variant("Dim", "named", [field("i32", "glow")]),
         variant("BrightWhite", ser=["Bright"])], style="snake_case")
    # case-insensitive enum
    add([variant("NoAttr"), variant("NoCaseInsensitive", aci=0), variant("CaseInsensitive", aci=1)], aci=True)
    add([variant("NoAttr"), variant("NoCaseInsensitive", aci=0), variant("CaseInsensitive", aci=1)], aci=False)
    # disabled in the middle, spelling of a disabled variant
    add([variant("First"), variant("Hidden", dis=True, ser=["hidden"]), variant("Last", ser=["last", "l"])])
    # Unicode spellings, case-insensitive
    add([variant("Ete", ser=["été"], aci=1), variant("Strasse", ser=["straße"], aci=1),
         variant("Kelvin", ser=["k"], aci=1), variant("Ls", ser=["ſ"], aci=0)])
    # acronyms under each style
    for st in STYLES + ALIASES:
        add([variant("HTTPServer"), variant("Ab12Cd"), variant("V2"), variant("XmlHttpRequest"), variant("A"),
             variant("Explicit", ser=["KeepMe_AsIs"]), variant("Ts", ts="Also Kept")], style=st)
    # generics and lifetimes (strum_tests generic_test / lifetime_test)
    add([variant("Gen", "tuple", [field("T")]), variant("Unit")], generics="ty")
    add([variant("Life", "tuple", [field("str")]), variant("Unit")], generics="lt")
    # default named field
    add([variant("Known"), variant("Other", "named", [field("String", "f")], default=True)])
    # a disabled default variant must not become the catch-all; a second, enabled default may follow it
    add([variant("Known"), variant("Legacy", "tuple", [field("String")], default=True, dis=True)])
    add([variant("Known"), variant("Legacy", "named", [field("String", "text")], default=True, dis=True), variant("Tail", ser=["t"])])
    add([variant("Legacy", "tuple", [field("String")], default=True, dis=True), variant("Known"), variant("Other", "tuple", [field("String")], default=True)])
    # a variant-level case-insensitivity override must not leak into the variants after it
    add([variant("Before"), variant("Marked", aci=1), variant("After"), variant("Last", ser=["last"])])
    add([variant("Before"), variant("Exact", aci=0), variant("After"), variant("Last", ser=["last"])], aci=True)
    # to_string next to serialize: both are spellings
    add([variant("Blue", "named", [field("u8", "hue")], ser=["b"], ts="blue"), variant("Red", ts="rouge"), variant("Cafe", ser=["caf\u00e9"], aci=1)])
    # two spellings of one variant that differ only in case, under every combination of the enum-level and variant-level flag
    for eaci in (False, True):
        add([variant("Fmt", ser=["json"], ts="JSON", aci=0), variant("Other", ser=["yaml"], ts="YAML"), variant("Third", ser=["toml"], ts="TOML", aci=1),
             variant("Plain", ser=["ini", "INI."])], aci=eaci)
    # a type parameter without a Default bound under payloads that are Default for every T
    add([variant("Unit"), variant("Opt", "tuple", [field("optT")], ser=["o"]), variant("Named", "named", [field("phT", "p"), field("u8", "n")])], generics="tynd")
    # variants named like the associated items and prelude names the generated impls mention
    add([variant("Ok"), variant("Err"), variant("Error", ser=["error", "failure"]), variant("Item", dis=True), variant("Output")])
    add([variant("Err", "tuple", [field("u8")], aci=1), variant("Error", "named", [field("String", "text")], default=True)])
    # an enum NAMED like a type the generated impls mention
    add([variant("Eof"), variant("Bad", ser=["bad", "invalid"]), variant("Other", dis=True)], name="ParseError")
    # every spelling begins alike (a rejected input that begins the same way is still handed on unchanged)
    add([variant("Start", ser=["app.start"]), variant("Stop", ser=["app.stop"]), variant("Restart", ser=["app.restart", "app.re"], aci=1)], perr=True)
    add([variant("Start", ser=["app.start"]), variant("Stop", ser=["app.stop"]), variant("Restart", ser=["app.restart"])])
    # spellings that collide under common 32-bit string hashes (FNV-1a); spellings whose order as source text (quoted, escaped) differs
    # from their order as values
    add([variant("A", ser=["costarring"]), variant("B", ser=["liquid"]), variant("C", ser=["declinate"]), variant("D", ser=["macallums"]),
         variant("E", ser=["altarage"]), variant("F", ser=["zinke"]), variant("G", ser=["altarages"]), variant("H", ser=["zinkes"])])
    add([variant("A", ser=["Done"]), variant("B", ser=["Done!"]), variant("C", ser=["New York"]), variant("D", ser=["New York City"]),
         variant("E", ser=["a\"b"]), variant("F", ser=["a b"]), variant("G", ser=["a\\b"]), variant("H", ser=["a#b"]), variant("I", ser=["In Progress"]),
         variant("J", ser=["In Progress (blocked)"])])
    # EnumString ignores the prefix altogether - also when a styled name happens to begin with it
    add([variant("DarkBlack"), variant("Dark"), variant("Light"), variant("DarkRoom", dis=True)], prefix="dark_", style="snake_case")
    add([variant("GetName"), variant("Name", ser=["nm"]), variant("Get")], prefix="get", style="camelCase")
    # more variants than a byte counts
    add([variant("Name%d" % k, aci=(1 if k % 50 == 3 else 2), dis=(k % 97 == 11)) for k in range(300)], style="kebab-case")
    # empty enum, single variant
    add([])
    add([variant("Only")])
    # custom error
    add([variant("Red"), variant("Blue", ser=["b"], aci=1)], perr=True)
    add([variant("Red"), variant("Blue", ser=["b"], aci=1)], perr=True, aci=True, style="kebab-case")
    return out


def exhaustive_small(start_id, rng, limit):
    """1..2 variants x kinds x spelling sources x flags: small shapes, complete up to `limit` (sampled beyond)"""
    sercfgs = [([], None), (["a"], None), (["ab", "a"], None), ([], "t"), (["a"], "T"), (["K"], None), (["A"], None), (["t"], "T")]
    flags = ["", "dis", "def", "disdef"]        # "disdef": a variant that is both default and disabled is simply disabled
    acis = [2, 1, 0]
    kinds = ["unit", "tuple1", "named1", "tuple2"]
    combos = list(itertools.product(sercfgs, flags, acis, kinds))

    def mk(ident, c):
        (ser, ts), fl, aci, kind = c
        if fl in ("def", "disdef"):
            if kind in ("unit", "tuple2"):
                return None
            return variant(ident, "tuple" if kind == "tuple1" else "named",
                           [field("String", "" if kind == "tuple1" else "f")], ser=ser, ts=ts, default=True, aci=aci,
                           dis=(fl == "disdef"))
        k, nf = {"unit": ("unit", 0), "tuple1": ("tuple", 1), "named1": ("named", 1), "tuple2": ("tuple", 2)}[kind]
        fs = [field(["u8", "String"][j], ["x", "val"][j] if k == "named" else "") for j in range(nf)]
        return variant(ident, k, fs, ser=ser, ts=ts, dis=(fl == "dis"), aci=aci)

    out, did = [], start_id
    ones = [mk("Ka", c) for c in combos]
    ones = [v for v in ones if v]
    pairs = []
    for v in ones:
        for eaci in (False, True):
            pairs.append(enum(0, [v], aci=eaci))
    twos = []
    second = [mk("Kb", c) for c in combos]
    second = [v for v in second if v]
    all2 = [(a, b) for a in ones for b in second]
    rng.shuffle(all2)
    for a, b in all2[: max(0, limit - len(pairs))]:
        twos.append(enum(0, [dict(a), dict(b)], aci=rng.random() < 0.5, style=rng.choice(["none", "none", "lowercase", "UPPERCASE"])))
    for E in (pairs + twos)[:limit]:
        E = dict(E)
        E["id"] = did
        E["name"] = "E%d" % did
        did += 1
        out.append(E)
    return out


# --------------------------------------------------------------------------- inputs
LOOKALIKE = {"K": ["K"], "k": ["K"], "s": ["ſ"], "S": ["ſ"], "i": ["ı", "İ"], "I": ["İ", "ı"],
             "ß": ["ss", "SS", "ẞ"], "K": ["k", "K"], "ſ": ["s", "S"], "ﬁ": ["fi", "FI"]}


def case_flips(s, rng, limit):
    pos = [i for i, c in enumerate(s) if c.isascii() and c.isalpha()]
    out = []
    if len(pos) <= limit:
        for mask in range(1 << len(pos)):
            t = list(s)
            for b, p in enumerate(pos):
                if mask >> b & 1:
                    t[p] = t[p].swapcase()
            out.append("".join(t))
    else:
        for _ in range(1 << limit):
            t = list(s)
            for p in pos:
                if rng.random() < 0.5:
                    t[p] = t[p].swapcase()
            out.append("".join(t))
        out += [s.lower(), s.upper(), s.swapcase()]
    return out


def neighbours(s, rng):
    out = []
    for i in range(len(s)):
        out.append(s[:i] + s[i + 1:])                       # delete
        out.append(s[:i] + "x" + s[i + 1:])                 # substitute
        out.append(s[:i] + "é" + s[i + 1:])
        if i + 1 < len(s):
            out.append(s[:i] + s[i + 1] + s[i] + s[i + 2:])  # transpose
        for la in LOOKALIKE.get(s[i], []):
            out.append(s[:i] + la + s[i + 1:])
    for i in range(len(s) + 1):
        out.append(s[:i] + rng.choice("aZ _-1é") + s[i:])  # insert
    # ASCII characters that are NOT letters with bit 0x20 flipped ('{' <-> '[', '@' <-> '`', '_' <-> DEL, '1' <-> DC1, ' ' <-> NUL):
    # "ignoring ASCII case" implemented as bit twiddling must not reach them
    for i, c in enumerate(s):
        if ord(c) < 128 and not c.isalpha():
            out.append(s[:i] + chr(ord(c) ^ 0x20) + s[i + 1:])
    if "ss" in s:
        out.append(s.replace("ss", "ß"))
    # non-ASCII letters case-swapped with the full Unicode mapping
    out += [s.upper(), s.lower(), s.swapcase(), s.title(), s.casefold()]
    out += [" " + s, s + " ", s + "\n", "\t" + s, s + "\0", s + s]
    return out


def naive_cases(ident):
    """crude re-casings of an identifier (inputs only - never an oracle)"""
    import re
    words = re.findall(r"[A-Z]+(?![a-z])|[A-Z]?[a-z0-9]+|[A-Z]+", ident.replace("_", " ")) or [ident]
    lw = [w.lower() for w in words]
    return ["_".join(lw), "-".join(lw), "_".join(lw).upper(), "-".join(lw).upper(), " ".join(w.capitalize() for w in lw),
            "-".join(w.capitalize() for w in lw), "".join(w.capitalize() for w in lw),
            lw[0] + "".join(w.capitalize() for w in lw[1:]), ident.lower(), ident.upper(), ident]


def gen_inputs(E, facts, rng, cap, flip_limit=6):
    """inputs for one definition: facts['sp'] are the spellings the specification derives (incl. disabled/default ones)"""
    must, more = [], []
    seen = set()

    def push(lst, s):
        if s not in seen:
            seen.add(s)
            lst.append(s)

    sps = []
    for i, v in enumerate(E["variants"]):
        for s in facts["sp"][i]:
            sps.append(uncp(s))
    prefix = uncp(E["prefix"][0]) if E["prefix"] else ""
    for s in sps:
        push(must, s)
    push(must, "")
    if prefix:
        # the printed form (prefix + spelling) is no spelling; neither is the prefix alone, nor the prefix in front of anything else
        for s in sps[:6]:
            push(must, prefix + s)
        push(must, prefix)
        push(must, prefix + "teal")
    # what all spellings begin with (and end with), alone and in front of (behind) something else
    if len(sps) >= 2:
        import os.path
        cpre = os.path.commonprefix(sps)
        csuf = os.path.commonprefix([x[::-1] for x in sps])[::-1]
        for c in (cpre, csuf):
            if c:
                push(must, c)
                push(must, c + "x")
                push(must, "x" + c)
    # long inputs: 63 / 64 / 65 bytes and more (length-indexed tables and masks end somewhere)
    for n in (63, 64, 65, 128, 300):
        push(must, "x" * n)
    if sps:
        push(must, sps[0] + "y" * 70)
    for v in E["variants"]:
        ident = uncp(v["id"])
        push(must, ident)
    for s in sps:
        for t in case_flips(s, rng, flip_limit):
            push(must if len(must) < cap * 0.6 else more, t)
    for s in sps:
        for la_src in neighbours(s, rng):
            push(more, la_src)
        if prefix:
            push(more, prefix + s)
    for v in E["variants"]:
        for t in naive_cases(uncp(v["id"])):
            push(more, t)
            for u in case_flips(t, rng, 2):
                push(more, u)
    for _ in range(8):
        n = rng.randrange(0, 6)
        push(more, "".join(rng.choice("abKks KſZ1_-é") for _ in range(n)))
    rng.shuffle(more)
    res = must[:cap]
    res += more[: max(0, cap - len(res))]
    return res


# --------------------------------------------------------------------------- names corpus (C02, C03)
NAME_LITS = ["b", "bl", "blu", "blue", "bluer", "x", "Light Blue", "é", "éé", "zzzzzzzz", "Q", "q1", "ALLCAPS", "mi-xed_Case",
             "", "ß", "with space ", "1", "a.b", "set{{}}", "{{x}}", "tab\there", "quote\"d", "uni\u212a", "semi;", "🦀", "long_long_long_long"]
PREFIXES = [None, None, None, "", "pre_", "P", "é-", "ns::", " "]


def names_def(rng, did, allow_prefix=True, styles=None, fieldless=False, nmax=6):
    n = rng.choice([1, 2, 3, 3, 4, 5, 6][:nmax + 1])
    generics = "none" if fieldless else rng.choice(["none", "none", "none", "ty", "const", "tywhere", "tydef", "constdef"])
    idents = rng.sample(IDENTS, n)
    vs = []
    for ident in idents:
        kind = "unit" if fieldless else rng.choice(["unit", "unit", "tuple", "named"])
        nf = 0 if kind == "unit" else rng.choice([0, 1, 2, 3])
        fields = rand_fields(rng, kind, nf, generics)
        mode = rng.choice(["none", "none", "ts", "ser", "ser", "ser", "both"])
        ser, ts = [], None
        if mode in ("ser", "both"):
            k = rng.choice([1, 2, 3, 3])
            ser = rng.sample(NAME_LITS, k)       # any order: "last" vs "longest" differ
        if mode in ("ts", "both"):
            ts = rng.choice(NAME_LITS)
        v = variant(ident, kind, fields, ser=ser, ts=ts, dis=rng.random() < 0.1, aci=rng.choice([2, 2, 1, 0]))
        if rng.random() < 0.15:
            v["docattrs"] = [(0, rng.choice(["#[doc(hidden)]", '#[doc(alias = "nick")]']))]
        if kind == "tuple" and len(fields) == 1 and TYPES[fields[0]["ty"]][4] and rng.random() < 0.3:
            v["dwith"] = TYPES[fields[0]["ty"]][4]          # consumed by EnumString only
        r = rng.random()
        if not fieldless and r < 0.07:
            v = default_variant(rng, ident)
        elif not fieldless and r < 0.14:
            ty = "sstr"      # AsRefStr / IntoStaticStr need AsRef<str> / Into<&'static str> of the inner value
            named = rng.random() < 0.4
            v = variant(ident, "named" if named else "tuple", [field(ty, rng.choice(FIELD_NAMES) if named else "")], transp=True,
                        ser=(rng.sample(NAME_LITS, 1) if rng.random() < 0.4 else []), ts=(rng.choice(NAME_LITS) if rng.random() < 0.3 else None))
        vs.append(v)
    E = enum(did, vs, style=rng.choice(styles or (["none"] * 5 + STYLES + ALIASES)),
             prefix=rng.choice(PREFIXES) if allow_prefix else None, aci=rng.random() < 0.2,
             cis=rng.random() < 0.4, generics=generics, split=rng.randrange(2))
    return ensure_generic_use(rng, E)


def names_exhaustive(start_id):
    """one variant x every ser order of 1..3 literals of distinct lengths x to_string x prefix x style x kind"""
    out, did = [], start_id
    lits = ["a", "bcd", "ef"]
    orders = [p for k in (1, 2, 3) for p in itertools.permutations(lits, k)]
    for ser in [()] + orders:
        for ts in (None, "T", "tttt"):
            for prefix in (None, "", "p/", "é"):
                for kind in ("unit", "tuple", "named"):
                    fs = [] if kind == "unit" else [field("u8", "val" if kind == "named" else ""), field("String", "s" if kind == "named" else "")]
                    style = ["none", "snake_case", "UPPERCASE", "Train-Case"][did % 4]
                    out.append(enum(did, [variant("HTTPServer", kind, fs, ser=list(ser), ts=ts), variant("Other")],
                                    style=style, prefix=prefix, cis=bool(did % 2)))
                    did += 1
    return out
